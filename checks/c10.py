from .common import *
NAMES = ['ECB', 'CBC', 'CTR', 'CFB', 'OFB']

def mode_obligations(r, tier, prefix=''):
    """one inductive step of every factory product + inverse + factory range (C10; also part of C02's claim "standard NIST mode")"""
    u, uuf = U_aes(), U_aes_blkuf()
    T = 300 if tier == 'quick' else 1800
    if not any(t.get('unit') == 'aes' for t in r.tv_results):
        r.tv(u, 'tv_aes.c')
    steps = 1 if tier == 'quick' else 3
    mode_obligations_(r, u, uuf, T, steps, prefix)
    return steps

def run(tier):
    r = Run('C10', tier)
    steps = mode_obligations(r, tier)
    r.bounds = ['no bound on stream length or IV: one inductive step from an arbitrary register value + frame condition; %d consecutive step(s) checked per query' % steps]
    r.outside = ['AES block function abstracted as an uninterpreted permutation pair (C09 proves the real one equals FIPS-197)']
    r.assumptions = ['E/D uninterpreted with D(E(x))=x and E(D(y))=y instantiated at every call', 'operator new does not fail']
    r.run_all()
    return r.finish()

def mode_obligations_(r, u, uuf, T, steps, prefix):
    for t in range(5):
        for enc in (1, 0):
            r.add(Ob(prefix + 'step-%s-%s' % (NAMES[t], 'enc' if enc else 'dec'), 'h_c10.c', [uuf], defines=['H_STEP', 'TYPE=%d' % t, 'ENC=%d' % enc, 'NSTEPS=%d' % steps],
                     unwind=600, timeout=T, replay_units=[u], note='arbitrary IV/register (incl. 0xFF..FF suffixes), arbitrary block, arbitrary key'))
        r.add(Ob(prefix + 'inverse-%s' % NAMES[t], 'h_c10.c', [uuf], defines=['H_INVERSE', 'TYPE=%d' % t], unwind=600, timeout=T, replay_units=[u]))
    r.add(Ob(prefix + 'factory-unknown-type', 'h_c10.c', [uuf], defines=['H_FACTORY_RANGE'], unwind=600, timeout=T, replay_units=[u]))

def replay(rp):
    return generic_replay(rp, {'aes': U_aes, 'aes_blkuf': U_aes})
