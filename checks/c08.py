from .common import *

def cmp_obligations(r, tier, ht, u=None, ureal=None, prefix=''):
    """hmac::cmphmac accepts iff every tag byte matches: candidate tag = true tag xor an arbitrary difference pattern (all 2^512 tag fields);
    native replay searches 65536 keys for one whose real tag shows the same wrong verdict.  Shared with C05 / C06 (the comparison is part of
    "modification detected" and "wrong key rejected")."""
    u = u or U_kern('kern_ufh', extra=UF_HASH)
    ureal = ureal or U_kern('kern')
    T = 300 if tier == 'quick' else 1800
    for n in ((0, 5, 64, 130) if not prefix or tier != 'quick' else (0, 37)):
        r.add(Ob(prefix + 'cmp-exact-h%d-len%d' % (ht, n), 'h_c08.c', [u], defines=['H_CMP', 'HT=%d' % ht, 'FLEN=%d' % (n + 48), 'POS=48', 'SREF_MSGMAX=%d' % (n + 8)],
                 unwind=max(400, n + 130), timeout=T, envs=KERN_ENVS, replay_units=[ureal], replay_envs=['env_native.c', 'env_native_file.c']))

def run(tier):
    r = Run('C08', tier)
    u = U_kern('kern_ufh', extra=UF_HASH)
    ureal = U_kern('kern')
    T = 300 if tier == 'quick' else 1800
    if tier == 'quick':
        lens = [0, 1, 7, 8, 9, 55, 56, 57, 63, 64, 65, 119, 120, 127, 128, 129, 191, 192, 193, 256, 257]
    else:
        lens = list(range(0, 330))
    for ht in (0, 1, 2):
        for n in lens:
            for pos in ((0, 48) if n % 8 == 0 else (48,)):
                r.add(Ob('hmac-value-h%d-len%d-pos%d' % (ht, n, pos), 'h_c08.c', [u], defines=['H_VALUE', 'HT=%d' % ht, 'FLEN=%d' % (n + pos), 'POS=%d' % pos, 'SREF_MSGMAX=%d' % (n + 8)],
                         unwind=max(400, n + pos + 80), timeout=T, envs=KERN_ENVS, replay_units=[ureal], replay_envs=['env_native.c', 'env_native_file.c']))
        cmp_obligations(r, tier, ht, u, ureal)
        for n in (0, 16, 100, 150):
            r.add(Ob('write-tag-h%d-body%d' % (ht, n), 'h_c08.c', [u], defines=['H_WRITE', 'HT=%d' % ht, 'FLEN=%d' % (n + 48), 'SREF_MSGMAX=%d' % (n + 8)],
                     unwind=max(400, n + 130), timeout=T, envs=KERN_ENVS, replay_units=[ureal], replay_envs=['env_native.c', 'env_native_file.c']))
    r.bounds = ['all keys, all file contents; message lengths %s (HBUF_SZ override 2 units = 128 bytes per refill, so refill boundaries at 128/256 are inside)' % ('%d..%d' % (lens[0], lens[-1]) if tier != 'quick' else lens),
                'tag comparison: all 2^512 candidate tag fields']
    r.outside = ['production refill size (2^19 units)', 'the digest value itself (C07): compression functions are uninterpreted here']
    r.assumptions = ['compression functions replaced by one uninterpreted function of (chaining value, block) + the counter increment read off in C07', 'operator new does not fail', 'no I/O errors']
    r.run_all(jobs=12)
    return r.finish()

def replay(rp):
    return generic_replay(rp, {'kern_ufh': U_kern, 'kern': U_kern})
