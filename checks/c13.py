from .common import *

def run(tier):
    r = Run('C13', tier)
    cfgs = [(1, 0, 0), (1, 17, 1), (2, 33, 2), (2, 48, 0), (3, 40, 1)] if tier == 'quick' else [(th, n, n % 3) for th in (1, 2, 3) for n in range(0, 66, 3)]
    for th, n, ht in cfgs:
        e2e_ob(r, 'write-order-T%d-len%d-h%d' % (th, n, ht), th, n, 1, ht, 1, timeout=900 if tier == 'quick' else 3600)
    # every reconstructed crash prefix either is shorter than 74 bytes, or carries an all-zero / partial tag: decided on the real verify gate
    gate_obligations(r, tier, [60, 73, 74, 100] if tier == 'quick' else list(range(48, 140, 4)), prefix='prefix-', ops=('verify',))
    # the tag field of a crash state (zero, or a partial tag write) against the real comparison: accepted only if the missing tag bytes are zero
    uh, ureal = U_kern('kern_ufh', extra=UF_HASH), U_kern('kern')
    for ht in (0, 1, 2):
        for n in ((0, 37) if tier == 'quick' else (0, 5, 37, 64, 130)):
            r.add(Ob('crash-tag-h%d-len%d' % (ht, n), 'h_c08.c', [uh], defines=['H_CMP', 'CRASHTAG', 'HT=%d' % ht, 'FLEN=%d' % (n + 48), 'POS=48', 'SREF_MSGMAX=%d' % (n + 8)],
                     unwind=max(400, n + 130), timeout=300 if tier == 'quick' else 1800, envs=KERN_ENVS, replay_units=[ureal], replay_envs=['env_native.c', 'env_native_file.c']))
    r.bounds = ['write sequences of %s (T, plaintext bytes, hash mode); crash point = any prefix of the write log incl. a partial last write' % cfgs]
    r.outside = ['A-ZERO: HMAC(k, body prefix) is not all-zero / does not end in the zero bytes of a partially written tag (probability 2^-8(hlen-j))']
    r.assumptions = ['A-ZERO', 'as C01', 'the solver decides the SHAPE of every intermediate file: all writes before the tag patch are appends in file order over a zero tag field, the tag is the last write and is computed only after the last body write; a file of that shape is rejected by the gate obligations (accept iff tag == HMAC)']
    r.run_all(jobs=10)
    return r.finish()

def replay(rp):
    return generic_replay(rp, {'kern_e2e_b1': lambda: U_kern('kern', buf=1), 'kern_gate': U_kern, 'kern_ufh': U_kern, 'kern': U_kern})
