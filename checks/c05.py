from .common import *
from . import c08

def run(tier):
    r = Run('C05', tier)
    u, ureal = U_kern_gate(), U_kern('kern')
    T = 300 if tier == 'quick' else 1800
    # L1/L2/L4: the gate (tag over exactly [48,EOF), full-length compare, reject => no output)
    gate_obligations(r, tier, [74, 100, 138, 177, 178, 239] if tier == 'quick' else list(range(74, 161, 4)) + list(range(174, 246, 3)), prefix='L124-', ops=('decrypt',))
    # L3: non-interference of every header byte
    flen = 48 + 20 + 32
    offs = list(range(0, 48))
    for ht in (0, 1, 2):
        for o in offs:
            if tier == 'quick' and ht != 0 and o not in (0, 7, 8, 9, 10, 25, 26, 29, 30, 41, 42, 47):
                continue
            alts = [None] if o != 9 else [a for a in (0, 1, 2, 3, 255) if a != ht]
            for alt in alts:
                r.add(Ob('L3-header-byte%d-h%d%s' % (o, ht, '' if alt is None else '-to%d' % alt), 'h_verify.c', [u],
                         defines=['H_NONINTERFERENCE', 'OFF=%d' % o, 'FLEN=%d' % flen, 'THREADS=1', 'HTFIX=%d' % ht, 'SREF_MSGMAX=%d' % (flen + 8), 'GHOST_MAX=2048'] + ([] if alt is None else ['ALTFIX=%d' % alt]),
                         unwind=400, timeout=T, envs=KERN_ENVS, replay_units=[ureal], replay_envs=NATIVE_FILE_ENVS, cbmc_extra=['--max-field-sensitivity-array-size', '256'],
                         known_key=('header-offset=8' if o == 8 else None)))
    # the full-length tag comparison itself (shared with C08): accepts iff every tag byte matches, for all tag fields; replayable on the real hash
    for ht_ in (0, 1, 2):
        c08.cmp_obligations(r, tier, ht_, prefix='tag-')
    r.bounds = ['L3: files of %d bytes (header, one IV, 32-byte body), T=1, every header offset 0..47, all contents/keys/replacement bytes' % flen]
    r.outside = ['A-MAC (cryptographic): modifications of [48,EOF) (bit flips in IVs/body, truncation, extension, chunk swaps) change the MAC input and are rejected; the solver part is that the tag covers exactly [48,EOF) and is compared in full (C08 + gate)',
                 'bytes 10+hlen..47 and a flipped hash-mode byte that still verifies carry no information: both files decrypt to the same plaintext']
    r.assumptions = ['A-MAC', 'compression functions uninterpreted', 'pipeline stub: "same plaintext" is decided as "pipeline started with identical cipher mode, IVs, text position on identical body bytes"']
    r.run_all(jobs=12)
    return r.finish()

def replay(rp):
    return generic_replay(rp, {'kern_gate': U_kern, 'kern_ufh': U_kern, 'kern': U_kern})
