from .common import *
ALGN = {0: 'sha1', 1: 'md5', 2: 'sha256'}
NR = {0: 80, 1: 64, 2: 64}

def detect_delta(r, u, tier):
    """read off the real code by how many bits one compression call advances the length counter (0 or 512)"""
    deltas = {}
    for alg in (0, 1, 2):
        for d in (512, 0):
            ob = Ob('K-%s-finaladd' % ALGN[alg], 'h_c07.c', [u], defines=['H_FINALADD', 'ALG=%d' % alg, 'DELTA=%d' % d], unwind=90, timeout=300, envs=HASH_ENVS, solver='cadical')
            r.run_ob(ob)
            only_counter = ob.status == 'CEX' and all('length counter advances' in dsc for _, dsc in ob.failed_props)
            if not only_counter:
                deltas[alg] = d
                r.add(ob)      # keep the result (HOLD or a real failure) as an obligation
                break
        else:
            deltas[alg] = 512
            r.add(ob)
    return deltas

HASH_ENVS = ['env_heap.c', 'env_cxx.c', 'env_file.c']

def compress_obligations(r, u, tier, alg, prefix=''):
    """K: the compression function (message words from bytes, schedule, every round) equals the standard; shared with C06 ("every key bit reaches the MAC")"""
    T = 300 if tier == 'quick' else 1800
    A = ['ALG=%d' % alg]
    nm = ALGN[alg]
    for j in range(NR[alg]):
        r.add(Ob(prefix + 'K-%s-round%d' % (nm, j), 'h_c07.c', [u], defines=['H_ROUND', 'J=%d' % j] + A, unwind=90, timeout=T, envs=HASH_ENVS, solver='cadical', cbmc_extra=['--slice-formula'],
                 note='one round from an arbitrary working state and arbitrary W[J] (state made arbitrary at the guarded observation hook)'))
    if alg == 0:
        r.add(Ob(prefix + 'K-%s-schedule' % nm, 'h_c07.c', [u], defines=['H_SCHED'] + A, unwind=90, timeout=T, envs=HASH_ENVS, solver='cadical'))
    if alg == 2:   # additions: one index per query (sliced), otherwise no back end returns
        r.add(Ob(prefix + 'K-%s-schedule-t0..15' % nm, 'h_c07.c', [u], defines=['H_SCHED', 'TSEL=0'] + A, unwind=90, timeout=T, envs=HASH_ENVS, solver='cadical', cbmc_extra=['--slice-formula']))
        for t in range(16, 64):
            r.add(Ob(prefix + 'K-%s-schedule-t%d' % (nm, t), 'h_c07.c', [u], defines=['H_SCHED', 'TSEL=%d' % t] + A, unwind=90, timeout=T, envs=HASH_ENVS, solver='cadical', cbmc_extra=['--slice-formula']))

def run(tier):
    r = Run('C07', tier)
    u, urec = U_hash(), U_hash_rec()
    T = 300 if tier == 'quick' else 1800
    r.tv(u, 'tv_hash.c', extra_env=('env_heap.c', 'env_cxx.c', 'env_io.c', 'env_file.c'))
    r.b.translate(u)
    deltas = detect_delta(r, u, tier)
    r.notes.append('length-counter increment per compressed block read off the real code: %s' % deltas)
    for alg in (0, 1, 2):
        A = ['ALG=%d' % alg]
        nm = ALGN[alg]
        compress_obligations(r, u, tier, alg)
        r.add(Ob('R-%s-result-init-factory' % nm, 'h_c07.c', [u], defines=['H_RESULT'] + A, unwind=90, timeout=T, envs=HASH_ENVS))
        r.add(Ob('P-%s-length-counter' % nm, 'h_c07.c', [u], defines=['H_COUNTER'] + A, unwind=90, timeout=T, envs=HASH_ENVS, known_key='length-counter-%s' % nm))
        D = ['DELTA=%d' % deltas[alg]]
        r.add(Ob('P-%s-padding' % nm, 'h_c07.c', [urec], defines=['H_PAD'] + A + D, unwind=130, timeout=T, envs=HASH_ENVS, replay_units=[u],
                 note='arbitrary chaining state, arbitrary block count n, every tail length 0..63 and content'))
        lens = list(range(0, 131)) if tier == 'quick' else list(range(0, 261))
        if alg != 0 and tier == 'quick':
            lens = [l for l in lens if l % 64 in (0, 1, 54, 55, 56, 57, 63)]
        for ln in lens:
            r.add(Ob('S-%s-string-len%d' % (nm, ln), 'h_c07.c', [urec], defines=['H_STRING', 'LEN=%d' % ln] + A + D, unwind=max(140, ln + 10), timeout=T, envs=HASH_ENVS, replay_units=[u]))
        tails = [0, 1, 55, 56, 63] if tier == 'quick' else list(range(64))
        for nfull in (0, 1, 2):
            for tl in tails:
                r.add(Ob('F-%s-fileloop-%dx64+%d' % (nm, nfull, tl), 'h_c07.c', [urec], defines=['H_FILELOOP', 'NFULL=%d' % nfull, 'TAILN=%d' % tl] + A + D, unwind=140, timeout=T, envs=HASH_ENVS, replay_units=[u]))
    # F1: the real filebuffer64 (refill logic) for refill sizes 1..3 units
    for hb in ((1, 2) if tier == 'quick' else (1, 2, 3)):
        uh = U_hash(hb)
        top = 64 * (2 * hb + 1) + 63
        fls = [x for x in range(0, top + 1) if tier != 'quick' or x % 64 in (0, 1, 63) or x in (5, 100)]
        for fl in fls:
            for pre in (0, 1):
                if tier == 'quick' and pre == 0 and fl % 64 == 63:
                    continue
                r.add(Ob('F1-filebuffer-refill%d-len%d-%s' % (hb, fl, 'prefix' if pre else 'plain'), 'h_c07.c', [uh], defines=['H_FILEBUF', 'FL=%d' % fl, 'PRE=%d' % pre],
                         unwind=max(140, fl + 10), timeout=T, envs=HASH_ENVS, replay_envs=NATIVE_FILE_ENVS))
    r.bounds = ['K (compression): no bound - every round from an arbitrary state, schedule as local recurrence, final addition',
                'P (padding): arbitrary state, block count n < 2^52, every tail length 0..63',
                'S (getStringHash): every length 0..%d (SHA-1; other algorithms at the residues 0,1,54..57,63 in quick)' % (130 if tier == 'quick' else 260),
                'F (getFileHash loop): 0..2 full units + tail; F1 (filebuffer64): refill sizes 1..3 units, file lengths up to two refills + 63 bytes, with and without prefix block']
    r.outside = ['monolithic digest equality is not attempted: digest(m) == standard follows from S/F (block stream = padded message) + K (each block compressed as the standard says) + R (output order) + I (initial value)',
                 'messages longer than 2^58 bytes']
    r.assumptions = ['operator new does not fail', 'recorder stub replaces the compression function in P/S/F (its only side effect, the counter increment, is read off the real code by K-finaladd)']
    r.run_all(jobs=12)
    return r.finish()

def replay(rp):
    return generic_replay(rp, {'hash': U_hash, 'hash_rec': U_hash})
