from .common import *

def run(tier):
    r = Run('C16', tier)
    u = U_base64()
    N = 24 if tier == 'quick' else 60
    envs = ['env_heap.c', 'env_cxx.c', 'env_ctype.c']
    T = 120 if tier == 'quick' else 900
    r.tv(u, 'tv_base64.c')
    r.add(Ob('tables', 'h_c16.c', [u], defines=['H_TABLES'], unwind=2, envs=envs, note='all 256 byte values / 64 indices symbolic'))
    for n in range(0, N + 1):
        un = 4 * ((n + 2) // 3) + 8
        r.add(Ob('encode-eq-rfc4648-len%d' % n, 'h_c16.c', [u], defines=['H_ENC', 'LEN=%d' % n], unwind=un, envs=envs, timeout=T))
        r.add(Ob('decode-inverts-encode-len%d' % n, 'h_c16.c', [u], defines=['H_ROUNDTRIP', 'LEN=%d' % n], unwind=un, envs=envs, timeout=T))
    for g in range(1, N // 3 + 1):
        for pad in (0, 1, 2):
            r.add(Ob('decode-eq-rfc4648-g%d-pad%d' % (g, pad), 'h_c16.c', [u], defines=['H_DECODE_REF', 'GROUPS=%d' % g, 'PAD=%d' % pad], unwind=4 * g + 8, envs=envs, timeout=T))
    r.add(Ob('validator-sound', 'h_c16.c', [u], defines=['H_VALID_SOUND', 'MAXLEN=28'], unwind=32, envs=envs, timeout=300,
             note='accepted => 24 chars, 22 symbols, "=="; decode with fixed length 24 stays inside new u8_t[16]'))
    r.add(Ob('validator-complete-printed-key', 'h_c16.c', [u], defines=['H_VALID_COMPLETE'], unwind=32, envs=envs, timeout=300))
    r.bounds = ['encode/decode: every message length 0..%d bytes, one query per length, all contents symbolic' % N, 'validator: candidate strings of length 0..28 (all contents, NUL-free)', 'tables: all indices']
    r.outside = ['messages longer than the bound (the encoder/decoder loop body is length-independent: one 3-byte group per iteration)',
                 'non-canonical trailing bits in the 22nd symbol are not required to be rejected (DESIGN C16)']
    r.assumptions = ['glibc C-locale ctype table (env/env_ctype.c, dumped from this sandbox) models std::isalnum', 'operator new does not fail']
    r.run_all()
    return r.finish()

def replay(rp):
    return generic_replay(rp, {'base64': U_base64})
