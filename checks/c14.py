from . import c03
def run(tier):
    return c03.run(tier, 'C14')
replay = c03.replay
