from .common import *
from . import c10

def run(tier):
    r = Run('C18', tier)
    cfgs = [(2, 33, 2), (3, 48, 4)] if tier == 'quick' else [(2, 33, 1), (2, 33, 2), (2, 33, 3), (2, 33, 4), (3, 48, 2), (3, 48, 4)]
    for th, n, ct in cfgs:
        e2e_ob(r, 'stream-iv-binding-T%d-len%d-c%d' % (th, n, ct), th, n, ct, 0, 1, extra=['CHECK_STREAM_IV'], known_key='stream-iv-binding', timeout=900)
    # seed dependence of the stored IVs: iv[0] = SHA1(seed), iv[j] = SHA1(iv[j-1]) is part of the format obligation (here without the binding check)
    for sl in ((5, 20, 256, 300) if tier == 'quick' else (0, 1, 5, 20, 55, 56, 64, 100, 255, 256, 257, 300, 520)):
        e2e_ob(r, 'iv-chain-seed%d' % sl, 3, 20, 2, 0, 1, extra=['SEEDLEN=%d' % sl], timeout=900)
    e2e_ob(r, 'iv-chain-seed-with-high-bytes', 3, 20, 2, 0, 1, extra=['SEEDLEN=13', 'SEEDFIX'], timeout=900)
    # "no keystream block is used twice" inside one stream: the CTR register after every step is counter+1 on all 128 bits (injective for 2^128 steps),
    # OFB/CFB/CBC feed back exactly the cipher output - the step obligations of C10 on the real mode objects
    c10.mode_obligations(r, tier, prefix='mode-')
    r.bounds = ['T in {2,3}, one chunk per stream, CTR/OFB and the other non-ECB modes; seeds of the listed lengths, contents symbolic']
    r.outside = ['A-SHA: SHA-1 has no collisions / short cycles, so the chained IV slots differ and depend on the seed - not a solver claim']
    r.assumptions = ['A-SHA', 'as C01']
    r.run_all(jobs=10)
    return r.finish()

def replay(rp):
    return generic_replay(rp, {'kern_e2e_b1': lambda: U_kern('kern', buf=1), 'aes': U_aes, 'aes_blkuf': U_aes})
