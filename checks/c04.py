from . import c03
def run(tier):
    return c03.run(tier, 'C04')
replay = c03.replay
