from .common import *

def run(tier):
    r = Run('C12', tier)
    u, ureal = U_kern_gate(), U_kern('kern')
    T = 300 if tier == 'quick' else 1800
    lens = [0, 7, 8, 9, 47, 73, 74, 75, 106, 138] if tier == 'quick' else list(range(0, 161, 1))
    for n in lens:
        for ht in ((None,) if n < 10 else (0, 1, 2, 3, 255)):
            d = ['H_VERIFY_EQ_DECRYPT', 'FLEN=%d' % n, 'THREADS=1', 'SREF_MSGMAX=%d' % (n + 8), 'GHOST_MAX=2048'] + ([] if ht is None else ['HTFIX=%d' % ht])
            r.add(Ob('verify-iff-decrypt-len%d%s' % (n, '' if ht is None else '-h%d' % ht), 'h_verify.c', [u], defines=d, unwind=max(400, n + 130), timeout=T, envs=KERN_ENVS,
                     replay_units=[ureal], replay_envs=NATIVE_FILE_ENVS, cbmc_extra=['--max-field-sensitivity-array-size', '256']))
    # verify writes nothing / input files are never written: part of the gate obligations (the FILE model asserts on any write to a read-only handle)
    gate_obligations(r, tier, [0, 9, 74, 138] if tier == 'quick' else list(range(0, 161, 8)), prefix='nowrite-', ops=('verify',))
    r.bounds = ['files of length %s, all contents and keys' % (lens if tier == 'quick' else '0..160')]
    r.outside = ['what decryption does after acceptance (C01/C03); files > 160 bytes']
    r.assumptions = ['compression functions uninterpreted', 'A-MAC: a tag field that was not computed with the key is not the valid tag', 'pipeline replaced by a recording stub']
    r.run_all(jobs=12)
    return r.finish()

def replay(rp):
    return generic_replay(rp, {'kern_gate': U_kern, 'kern': U_kern})
