from .common import *
from . import c08, c07

def run(tier):
    r = Run('C06', tier)
    lens = [74, 75, 90, 138] if tier == 'quick' else list(range(74, 161, 2))
    # L1/L4/L6/L7 live in the gate harness: acceptance iff tag == HMAC(key, body) for the key PASSED IN; rejecting => no write, no pipeline;
    # first hashed block == (key||0^48)^ipad (all 128 key bits reach the MAC); cipher streams keyed with the same key
    gate_obligations(r, tier, lens, ops=('decrypt', 'verify'))
    # the full-length tag comparison itself (shared with C08): accepts iff every tag byte matches, for all tag fields; replayable on the real hash
    for ht_ in (0, 1, 2):
        c08.cmp_obligations(r, tier, ht_, prefix='tag-')
    # "any other key is rejected" needs every bit of the key block to reach the MAC: the compression functions the HMAC is built from are the
    # standard ones (message words from ALL bits of the block, schedule, rounds) - the K obligations of C07, on the real sha1/md5/sha256 code
    uh = U_hash()
    for alg in (0, 1, 2):
        c07.compress_obligations(r, uh, tier, alg, prefix='hash-')
    r.bounds = ['files of length %s; all contents, all (key, key\') pairs: the file\'s tag is arbitrary, in particular any tag computed under another key' % lens]
    r.outside = ['A-KEY (cryptographic): HMAC(k\',m) != HMAC(k,m) for k\' != k - not a solver claim; what the solver decides is that acceptance depends on the supplied key only through the full-length tag comparison, that all 16 key bytes enter the MAC, and that rejection writes nothing']
    r.assumptions = ['A-KEY', 'A-MAC', 'compression functions uninterpreted in the gate obligations; tied to the standards by the hash-K-* obligations (shared with C07)']
    r.run_all(jobs=12)
    return r.finish()

def replay(rp):
    return generic_replay(rp, {'hash': U_hash, 'kern_gate': U_kern, 'kern_ufh': U_kern, 'kern': U_kern})
