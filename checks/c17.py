from .common import *
import sys
from vlib import BrokenCheck

NATIVE = ['env_native.c', 'env_native_file.c']
# integration sequences over the menu of h_c17.c (index: 0 -e 1 -d 2 -v 3 -i in.bin 4 -i nofile 5 -i <130 chars> 6 -o out.bin 7 -o /nodir/out 8 -k valid
# 9..11 -k malformed 12 --cmode 2 13 --cmode 7 14 --hmode 1 15 --hmode 9 16 -n 17 -V 18 -h 19 unknown 20 --cmode -3 21 -i <symbolic path> 22 --cmode 256 23 --hmode 255)
SEQS_QUICK = [[k] for k in range(24)] + [
    [0, 3], [0, 21], [0, 5], [0, 3, 6, 8], [0, 3, 12, 14, 16], [0, 3, 13], [0, 3, 15], [0, 3, 22], [0, 3, 23], [0, 3, 20], [0, 4], [0, 3, 7], [0, 3, 9], [0, 3, 12, 12],
    [1, 3], [1, 3, 8], [1, 3, 6], [1, 3, 8, 6], [1, 8, 6], [1, 5, 8, 6], [1, 3, 8, 6, 13], [1, 3, 8, 6, 12],
    [2, 3], [2, 3, 8], [2, 8], [2, 3, 10], [2, 3, 8, 14],
    [0, 1], [1, 2, 3, 8, 6], [17, 3], [18, 19], [3, 6, 8], [16], [3, 0], [8, 6, 3, 1], [0, 0],
]

def exc_selftest(r):
    """translation validation of the exception lowering (ir2c --exceptions + env/env_exc.c): nine try/catch/cleanup/rethrow scenarios, generated C vs g++ build"""
    import subprocess, shutil
    d = r.ws.path('tv_exc')
    os.makedirs(d, exist_ok=True)
    tv = os.path.join(VERIF, 'tv')
    def sh_(cmd):
        return subprocess.run(cmd, cwd=d, capture_output=True, text=True)
    steps = [['clang++-14', '-std=c++17', '-O1', '-fno-vectorize', '-fno-slp-vectorize', '-fno-unroll-loops', '-S', '-emit-llvm', os.path.join(tv, 'exc_t.cpp'), '-o', 't.ll'],
             [sys.executable, os.path.join(VERIF, 'engine', 'ir2c.py'), 't.ll', '-o', 't.c', '--exceptions'],
             ['gcc', '-std=gnu11', '-w', '-O1', '-I' + os.path.join(VERIF, 'engine'), '-I' + os.path.join(VERIF, 'env'), '-DIR2C_EXCEPTIONS', 't.c', os.path.join(tv, 'exc_drv.c')] +
             [os.path.join(VERIF, 'env', e) for e in ('env_cxx.c', 'env_exc.c', 'env_heap.c')] + ['-o', 'model'],
             ['g++', '-std=c++17', '-O1', os.path.join(tv, 'exc_t.cpp'), os.path.join(tv, 'exc_real.cpp'), '-o', 'real']]
    for c in steps:
        x = sh_(c)
        if x.returncode != 0:
            raise BrokenCheck('exception self-test build failed: %s' % x.stderr[-800:])
    a, b = sh_(['./model']).stdout, sh_(['./real']).stdout
    if a != b or not a:
        r.tv_failed = 'exception lowering self-test: generated C and g++ build disagree'
        r.tv_results.append(dict(unit='exception lowering', inputs_agreeing=0, mismatch=(a + '|' + b)[-400:]))
    else:
        r.tv_results.append(dict(unit='exception lowering (tv/exc_t.cpp)', inputs_agreeing=a.count('/')))

def run(tier):
    r = Run('C17', tier)
    exc_selftest(r)
    T = 600 if tier == 'quick' else 1800
    ureal = U_cli_real()
    # ---- one step of the option loop from an arbitrary Inv state
    u = U_cli()
    lens = [0, 1, 5, 23, 24, 25, 60, 122, 123, 124, 130, 200] if tier == 'quick' else list(range(0, 40)) + [60, 100, 118, 119, 120, 121, 122, 123, 124, 125, 126, 127, 128, 129, 130, 140, 200, 250]
    def step(name, optc, n):
        r.add(Ob('step-%s%s' % (name, '-arglen%d' % n if n is not None else ''), 'h_c17.c', [u], defines=['H_STEP', 'ARGLEN=%d' % (n or 0), 'ENV_NO_EXIT', 'IR2C_EXCEPTIONS'] + (['OPTC=%d' % optc] if optc is not None else []),
                 unwind=max(64, (n or 0) + 16), timeout=T, mem_gb=16, envs=CLI_ENVS, cbmc_extra=FS + ['--slice-formula'], replay_units=[ureal], replay_envs=NATIVE,
                 note='option %s, any argument text of that many printable characters, any state satisfying Inv, any fopen outcome / file size / number' % name))
    for ch in 'edvVhn':
        step('opt-' + ch, ord(ch), None)
    step('cmode', 1, 3); step('hmode', 2, 3); step('unknown-option', None, 5)
    for ch in 'iok':
        for n in lens:
            step('opt-' + ch, ord(ch), n)
    # ---- what get_v_opt does around the loop
    ut = U_cli_tail()
    for n in ((0, 1, 2) if tier == 'quick' else (0, 1, 2, 3)):
        r.add(Ob('tail-%d-options' % n, 'h_c17.c', [ut], defines=['H_TAIL', 'NOPT=%d' % n, 'ENV_NO_EXIT', 'IR2C_EXCEPTIONS'], unwind=270, timeout=T, mem_gb=16, envs=CLI_ENVS, cbmc_extra=FS,
                 replay_units=[ureal], replay_envs=NATIVE, note='parseOpts replaced by "any Inv state, any verdict"; default output opens or not'))
    # ---- main
    um = U_cli_main()
    r.add(Ob('main-dispatch', 'h_c17.c', [um], defines=['H_MAIN', 'ENV_NO_EXIT', 'IR2C_EXCEPTIONS'], unwind=64, timeout=T, mem_gb=16, envs=CLI_ENVS, cbmc_extra=FS,
             replay_units=[ureal], replay_envs=NATIVE, note='get_v_opt replaced by "NULL, or any state satisfying Q"; kernel operations replaced by recorders with a symbolic result'))
    # ---- integration: the undivided main() on concrete option sequences
    seqs = SEQS_QUICK if tier == 'quick' else SEQS_QUICK + [[a, b] for a in range(24) for b in range(24)]
    seen = set()
    for sq in seqs:
        nm = 'whole-' + '-'.join(str(k) for k in sq)
        if nm in seen:
            continue
        seen.add(nm)
        plens = (1, 6, 130) if 21 in sq else (6,)
        for pl in plens:
            r.add(Ob(nm + ('-path%d' % pl if 21 in sq else ''), 'h_c17.c', [u], defines=['H_WHOLE', 'SEQ=%s' % ','.join(str(k) for k in sq), 'WPATHLEN=%d' % pl, 'ENV_NO_EXIT', 'IR2C_EXCEPTIONS'], unwind=270, timeout=T, mem_gb=16,
                     envs=CLI_ENVS, cbmc_extra=FS + (['--slice-formula'] if 21 in sq else []), replay_units=[ureal], replay_envs=NATIVE, note='real main/get_v_opt/parseOpts together; operation result, file size and the symbolic path symbolic'))
    r.bounds = ['option vectors of ANY length: induction over the option loop (Inv holds initially: tail obligations; preserved by every accepted option: step obligations; a rejected option ends the run with a diagnostic)',
                'per step (one query per option code class; the class unknown-option covers the other 245 char values): every argument text of the listed lengths %s over printable characters, every Inv state' % lens,
                'integration: %d concrete option sequences through the undivided main()' % len(seen)]
    r.outside = ['glibc getopt_long tokenisation of argv (the model delivers any sequence of option codes with arguments; abbreviations, "--", permutation are glibc\'s)', 'iostream / std::filesystem internals; file_size throwing (modelled as returning any value)',
                 'the interactive prompt mode (excluded by C17)', 'argument texts longer than 250 characters and non-printable characters', 'non-numeric mode numbers (atoi semantics: taken as 0)',
                 'the restore claim "the key printed by -e lets -d restore F" = C16 (printed key accepted and decodes to the same key) + C01', 'what the kernel prints when an operation fails (C11/C12 give the result code)']
    r.assumptions = ['getopt_long / fopen / atoi / std::filesystem::file_size / exit modelled in harness/h_c17.c (each returns an arbitrary value of its contract)', 'strlog (formatting) replaced by a diagnostic counter',
                     'runcrypt constructor and operations replaced by recorders that check the kernel preconditions and return a symbolic result', 'operator new does not fail']
    r.run_all(jobs=14)
    # ---- concordance: the same harnesses natively on the REAL build (real getopt_long / fopen / kernel) for concrete inputs
    cases = []
    def cc(name, defines, asg):
        cases.append((Ob('real-build-' + name, 'h_c17.c', [ureal], defines=defines, replay_units=[ureal], replay_envs=NATIVE), asg))
    U = ['IN.mode=117', 'IN.ctype=255', 'IN.htype=255']                      # mode 'u', numbers unset
    def txt(field, t): return ['IN.%s[%d]=%d' % (field, i, ord(ch)) for i, ch in enumerate(t)]
    cc('step-i-130-opens', ['H_STEP', 'ARGLEN=130', 'OPTC=%d' % ord('i')], U + ['IN.c=%d' % ord('i'), 'IN.fopen_ok=1'] + txt('arg', 'q' * 130))
    cc('step-i-missing', ['H_STEP', 'ARGLEN=7', 'OPTC=%d' % ord('i')], U + ['IN.c=%d' % ord('i'), 'IN.fopen_ok=0'] + txt('arg', 'missing'))
    cc('step-o-dir', ['H_STEP', 'ARGLEN=3', 'OPTC=%d' % ord('o')], U + ['IN.c=%d' % ord('o'), 'IN.fopen_ok=0'] + txt('arg', 'dir'))
    cc('step-k-valid', ['H_STEP', 'ARGLEN=24', 'OPTC=%d' % ord('k')], U + ['IN.c=%d' % ord('k')] + txt('arg', 'QUJDREVGR0hJSktMTU5PUA=='))
    cc('step-k-one-pad', ['H_STEP', 'ARGLEN=24', 'OPTC=%d' % ord('k')], U + ['IN.c=%d' % ord('k')] + txt('arg', 'QUJDREVGR0hJSktMTU5PUFE='))
    for v in (0, 4, 5, 255, 256, -1, 4294967296, 4294967298, 9223372036854775807):
        cc('step-cmode-%d' % v, ['H_STEP', 'ARGLEN=3', 'OPTC=1'], U + ['IN.c=1', 'IN.num=%d' % v, 'IN.consumed=3', 'IN.erange=%d' % (v == 9223372036854775807)])
    cc('step-hmode-twice', ['H_STEP', 'ARGLEN=3', 'OPTC=2'], ['IN.mode=101', 'IN.ctype=255', 'IN.htype=1', 'IN.c=2', 'IN.num=2', 'IN.consumed=3'])
    cc('step-cmode-text', ['H_STEP', 'ARGLEN=3', 'OPTC=1'], U + ['IN.c=1', 'IN.num=0', 'IN.consumed=0'])
    cc('step-cmode-2x', ['H_STEP', 'ARGLEN=3', 'OPTC=1'], U + ['IN.c=1', 'IN.num=2', 'IN.consumed=1'])
    cc('step-second-mode', ['H_STEP', 'ARGLEN=0', 'OPTC=%d' % ord('d')], ['IN.mode=101', 'IN.ctype=255', 'IN.htype=255', 'IN.c=%d' % ord('d')])
    cc('step-unknown', ['H_STEP', 'ARGLEN=0'], U + ['IN.c=%d' % ord('x')])
    H = lambda k, mode, fp, out, key, ok=1, ct=255, ht=255: ['IN.h[%d].ok=%d' % (k, ok), 'IN.h[%d].mode=%d' % (k, ord(mode)), 'IN.h[%d].ctype=%d' % (k, ct), 'IN.h[%d].htype=%d' % (k, ht),
                                                             'IN.h[%d].has_fp=%d' % (k, fp), 'IN.h[%d].has_out=%d' % (k, out), 'IN.h[%d].has_key=%d' % (k, key)]
    T1 = ['H_TAIL', 'NOPT=1']
    for nm, a in (('e-default-out', H(0, 'e', 1, 0, 0) + ['IN.fopen_ok=1']), ('e-default-out-unopenable', H(0, 'e', 1, 0, 0) + ['IN.fopen_ok=0']), ('e-no-input', H(0, 'e', 0, 1, 1)),
                  ('d-complete', H(0, 'd', 1, 1, 1, ct=2, ht=1)), ('d-no-key', H(0, 'd', 1, 1, 0)), ('d-no-out', H(0, 'd', 1, 0, 1)), ('d-no-input', H(0, 'd', 0, 1, 1)),
                  ('v-complete', H(0, 'v', 1, 0, 1)), ('v-no-key', H(0, 'v', 1, 0, 0)), ('no-mode', H(0, 'u', 1, 1, 1)), ('version', H(0, 'V', 0, 0, 0)), ('rejected-option', H(0, 'e', 1, 1, 1, ok=0))):
        cc('tail-' + nm, T1, ['IN.nopts=1', 'IN.c[0]=1'] + a)
    cc('tail-no-option', ['H_TAIL', 'NOPT=0'], ['IN.nopts=0'])
    for mode in 'edv':
        for res in (1, 0):
            if mode == 'e' and not res:
                continue
            cc('main-%s-result%d' % (mode, res), ['H_MAIN'], ['IN.mode=%d' % ord(mode), 'IN.ctype=%d' % (1 if mode == 'e' else 255), 'IN.htype=%d' % (2 if mode == 'e' else 255), 'IN.has_out=1', 'IN.has_key=1', 'IN.opres=%d' % res])
    cc('main-help', ['H_MAIN'], ['IN.mode=%d' % ord('h'), 'IN.ctype=255', 'IN.htype=255'])
    cc('main-rejected', ['H_MAIN'], ['IN.null=1', 'IN.mode=%d' % ord('d'), 'IN.ctype=255', 'IN.htype=255', 'IN.has_out=1', 'IN.has_key=1'])
    for sq in ([0, 3], [0, 5], [0, 21], [0, 3, 6, 8], [0, 3, 12, 14, 16], [0, 3, 13], [0, 3, 22], [0, 4], [0, 3, 9], [1, 3], [1, 3, 8], [1, 3, 8, 6], [1, 3, 8, 6, 12], [2, 3], [2, 3, 8], [0, 1], [17], [18], [19], [3, 6, 8], [8, 6, 3, 1]):
        for res in (1, 0):
            if 0 in sq and not res:
                continue
            cc('whole-%s-result%d' % ('-'.join(str(k) for k in sq), res), ['H_WHOLE', 'SEQ=%s' % ','.join(str(k) for k in sq), 'WPATHLEN=6'], ['IN.opres=%d' % res] + txt('path', 'sympth'))
    r.concord(cases, jobs=14)
    return r.finish()

def replay(rp):
    return generic_replay(rp, {'cli': U_cli_real, 'cli_tail': U_cli_real, 'cli_main': U_cli_real, 'cli_real': U_cli_real})
