from .common import *

def run(tier):
    r = Run('C17', tier)
    u = U_cli()
    T = 900 if tier == 'quick' else 3600
    for n in ((1, 2, 3) if tier == "quick" else (2, 3, 4, 5)):
        r.add(Ob('option-vectors-up-to-%d' % n, 'h_c17.c', [u], defines=['NOPT=%d' % n, 'ENV_NO_EXIT'], unwind=220, timeout=T, mem_gb=24, envs=CLI_ENVS, replay='none', cbmc_extra=FS,
                 note='every sequence of <= %d options from a 21-entry menu of (option, argument) pairs; operation result symbolic' % n))
    r.bounds = ['option vectors of length 1..5 over a menu of 21 (option, value-class) pairs: -e -d -v -V -h -n, -i {existing, missing, 130-character path}, -o {ok, unopenable}, -k {valid, 3 malformed}, --cmode {2, 7, -3}, --hmode {1, 9}, unknown option']
    r.outside = ['glibc getopt_long tokenisation of argv, iostream/filesystem internals, the interactive prompt mode (excluded by C17), the restore claim "key printed by -e lets -d restore F" = C16 (printed key accepted and decodes to the same key) + C01']
    r.assumptions = ['getopt_long/fopen/sprintf/strtol/std::filesystem::file_size modelled in harness/h_c17.c', 'strlog (formatting) replaced by a diagnostic counter', 'runcrypt replaced by a stub that checks the kernel preconditions and returns a symbolic result']
    r.run_all(jobs=4)
    return r.finish()

def replay(rp):
    return 0
