from .common import *

def run(tier):
    r = Run('C09', tier)
    block_obligations(r, tier)
    finish_(r)
    r.run_all()
    return r.finish()

def block_obligations(r, tier, prefix=''):
    """AES block function == FIPS-197, by composition T1..T4 (C09; also behind C01's "decrypt restores" claim)"""
    u, uuf, ukuf = U_aes(), U_aes_uf(), U_aes_kuf()
    T = 300 if tier == 'quick' else 1800
    if not any(t.get('unit') == 'aes' for t in r.tv_results):
        r.tv(u, 'tv_aes.c')
    add = r.add
    r_add = lambda ob: (setattr(ob, 'name', prefix + ob.name), add(ob))
    r_add(Ob('T1-tables', 'h_c09.c', [u], defines=['H_TABLES'], unwind=10, timeout=T, note='all 256 inputs symbolic'))
    r_add(Ob('T1-gmul', 'h_c09.c', [u], defines=['H_GMUL'], unwind=10, timeout=T))
    r_add(Ob('T2-enc-round-special', 'h_c09.c', [u], defines=['H_ENC_ROUND', 'SPEC'], unwind=18, timeout=T))
    r_add(Ob('T2-dec-round-special', 'h_c09.c', [u], defines=['H_DEC_ROUND', 'SPEC'], unwind=18, timeout=T))
    r_add(Ob('T2-round-inverse-special', 'h_c09.c', [u], defines=['H_ROUND_INVERSE', 'SPEC'], unwind=18, timeout=T))
    for lane in range(16):   # one output byte per query: 64 symbolic input bits in the cone instead of 256
        r_add(Ob('T2-enc-round-common-byte%d' % lane, 'h_c09.c', [u], defines=['H_ENC_ROUND', 'LANE=%d' % lane], unwind=18, timeout=T, cbmc_extra=['--slice-formula'], solver='cadical'))
        r_add(Ob('T2-dec-round-common-byte%d' % lane, 'h_c09.c', [u], defines=['H_DEC_ROUND', 'LANE=%d' % lane], unwind=18, timeout=T, cbmc_extra=['--slice-formula'], solver='cadical'))
    r_add(Ob('T2-ref-lemma-invmix', 'h_c09.c', [u], defines=['H_REF_INVMIX'], unwind=18, timeout=T, solver='z3', note='property of the FIPS reference only'))
    for rd in range(1, 11):
        r_add(Ob('T3-keystep-round%d' % rd, 'h_c09.c', [u], defines=['H_KEYSTEP', 'ROUND=%d' % rd], unwind=180, timeout=T))
    r_add(Ob('T3-key-skeleton', 'h_c09.c', [ukuf], defines=['H_KEYSKEL'], unwind=180, timeout=T, replay_units=[u]))
    r_add(Ob('T3-key-skeleton-after-another-key', 'h_c09.c', [ukuf], defines=['H_KEYSKEL', 'HISTORY'], unwind=180, timeout=T, replay_units=[u], note='two arbitrary keys expanded one after the other: no state carried over'))
    r_add(Ob('T4-compose-enc', 'h_c09.c', [uuf], defines=['H_COMPOSE'], unwind=180, timeout=T, replay_units=[u]))
    r_add(Ob('T4-compose-dec', 'h_c09.c', [uuf], defines=['H_COMPOSE', 'DEC'], unwind=180, timeout=T, replay_units=[u]))

def finish_(r):
    r.bounds = ['none besides the 128-bit block and 128-bit key: every obligation quantifies over all values of its symbolic inputs; AES(key,block) == FIPS-197 follows by composition T1..T4']
    r.outside = ['a monolithic 2^256 equivalence query is not attempted (DESIGN section 6 C09); the composition argument is: T3 (schedule) + T2 (each round function) + T4 (order of rounds and keys, load/store byte order)']
    r.assumptions = ['operator new does not fail', 'T4 abstracts the four round functions by uninterpreted functions of (state, round key[s]); justified by T2',
                     'T3-key-skeleton abstracts genkey(r) by an uninterpreted function of (round key r-1, r); justified by T3-keystep']

def replay(rp):
    return generic_replay(rp, {'aes': U_aes, 'aes_uf': U_aes, 'aes_kuf': U_aes})
