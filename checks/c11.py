from .common import *

def run(tier):
    r = Run('C11', tier)
    if tier == 'quick':
        # 103/104/111/112: hashed region (from offset 48) ends 55, 56, 63, 0 bytes into a block - the padding thresholds of all three hashes
        lens = [0, 1, 7, 8, 9, 10, 30, 47, 48, 73, 74, 75, 90, 103, 104, 106, 111, 112, 138, 177, 240]
    else:
        lens = list(range(0, 161)) + list(range(170, 250, 5))
    gate_obligations(r, tier, lens, threads=(1,) if tier == 'quick' else (1, 2))
    r.bounds = ['input files of every listed length %s with ALL contents and ALL keys symbolic (one query per length, hash-mode class and operation)' % (lens if tier == 'quick' else '0..160'),
                'hash-mode byte split into the classes 0, 1, 2, >2; cipher-mode byte unconstrained']
    r.outside = ['files longer than 160 bytes (no length-dependent branch beyond offset 74 exists in verify(); the body is only hashed)',
                 'the decryption pipeline itself after an accepting verify (files with a valid tag are outside C11\'s domain unless authentic; authentic files: C01/C03/C04)',
                 'I/O errors, allocation failure']
    r.assumptions = ['compression functions uninterpreted (C07)', 'run_multicry replaced by a recording stub: the claim covers everything up to and including the decision to start the pipeline and its parameters']
    r.run_all(jobs=12)
    return r.finish()

def replay(rp):
    return generic_replay(rp, {'kern_gate': U_kern, 'kern': U_kern})
