from .common import *
from . import c10

def run(tier):
    r = Run('C02', tier)
    cfgs = []
    if tier == 'quick':
        for ct in range(5):
            for ht in range(3):
                cfgs.append((1 + (ct + ht) % 2, [5, 16, 20, 33, 47][ct], ct, ht, 1, 5))
        cfgs += [(3, 40, 1, 0, 1, 5), (2, 70, 2, 2, 2, 5), (1, 0, 0, 0, 1, 0), (2, 16, 1, 1, 1, 64), (1, 3, 4, 2, 1, 60), (1, 16, 1, 0, 1, 256), (2, 5, 2, 0, 1, 300)]
    else:
        for th in (1, 2, 3):
            for n in range(0, 50, 1 if th < 3 else 7):
                cfgs.append((th, n, n % 5, n % 3, 1, 5))
        for sl in (0, 1, 55, 56, 63, 64, 65, 120, 255, 256, 257, 300, 520):
            cfgs.append((2, 20, 1, 0, 1, sl))
        for n in range(0, 100, 5):
            cfgs.append((2, n, n % 5, n % 3, 2, 5))
    for th, n, ct, ht, buf, sl in cfgs:
        e2e_ob(r, 'format-T%d-len%d-c%d-h%d-chunk%d-seed%d' % (th, n, ct, ht, 16 * buf, sl), th, n, ct, ht, buf, extra=['SEEDLEN=%d' % sl], timeout=900 if tier == 'quick' else 3600)
    e2e_ob(r, 'format-T2-len20-c1-h0-chunk16-seed-with-high-bytes', 2, 20, 1, 0, 1, extra=['SEEDLEN=13', 'SEEDFIX'], timeout=900 if tier == 'quick' else 3600)
    # boundary bytes (see C01): bytes at / before chunk boundaries concrete 0xFF / 0x00 / 0x0A so that a read position that depends on a byte value stays concrete
    for th, n, ct, ht, buf, fixes in ((1, 33, 1, 0, 1, ((16, 255), (32, 255), (15, 0))), (2, 49, 3, 2, 1, ((16, 0), (32, 10), (48, 255)))):
        ex = ['SEEDLEN=5']
        for i, (o, v) in enumerate(fixes):
            ex += ['FIX%d_OFF=%d' % (i + 1, o), 'FIX%d_VAL=%d' % (i + 1, v)]
        e2e_ob(r, 'format-boundary-bytes-T%d-len%d-c%d-h%d-chunk%d-%s' % (th, n, ct, ht, 16 * buf, '_'.join('%d=%02x' % f for f in fixes)), th, n, ct, ht, buf, extra=ex, timeout=900 if tier == 'quick' else 3600)
    # "enciphered ... in the selected NIST mode": the five real stream objects, one inductive step each (the obligations of C10)
    c10.mode_obligations(r, tier, prefix='mode-')
    r.bounds = ['%d configurations of (T<=3, plaintext length, cipher mode 0..4, hash mode 0..2, chunk 16/32 bytes, seed length); contents, key and seed symbolic' % len(cfgs)]
    r.outside = ['T > 3', 'production chunk size', 'block cipher and hash values (C09, C07, C08): in the end-to-end runs the body is compared with the padded plaintext under the invertible marker and the tag/IVs with the uninterpreted-hash reference; the mode objects themselves are covered by the mode-* obligations (shared with C10) with the block cipher uninterpreted']
    r.assumptions = ['as C01']
    r.run_all(jobs=10)
    return r.finish()

def replay(rp):
    return generic_replay(rp, {'kern_e2e_b1': lambda: U_kern('kern', buf=1), 'kern_e2e_b2': lambda: U_kern('kern', buf=2), 'aes': U_aes, 'aes_blkuf': U_aes})
