from .common import *
from . import c09, c10

def run(tier):
    r = Run('C01', tier)
    cfgs = []
    if tier == 'quick':
        for i, n in enumerate([0, 1, 15, 16, 17, 31, 32, 33]):
            cfgs.append((1, n, i % 5, i % 3, 1))
        for i, n in enumerate([0, 15, 16, 17, 32, 33, 47, 48]):
            cfgs.append((2, n, (i + 2) % 5, (i + 1) % 3, 1))
        cfgs += [(1, 31, 2, 0, 2), (1, 32, 3, 1, 2), (2, 64, 4, 2, 2), (3, 48, 1, 0, 1)]
    else:
        for n in range(0, 65):
            cfgs.append((1, n, n % 5, n % 3, 1))
            cfgs.append((2, n, (n + 2) % 5, (n + 1) % 3, 1))
        for n in range(0, 100, 3):
            cfgs.append((2, n, n % 5, n % 3, 2))
        for n in (0, 16, 47, 48, 49, 96):
            cfgs.append((3, n, n % 5, n % 3, 1))
    for th, n, ct, ht, buf in cfgs:
        e2e_ob(r, 'roundtrip-T%d-len%d-c%d-h%d-chunk%d' % (th, n, ct, ht, 16 * buf), th, n, ct, ht, buf, extra=['ROUNDTRIP'], timeout=900 if tier == 'quick' else 3600)
    # boundary bytes: the byte at a chunk boundary (and the block before it) concrete 0xFF / 0xFE (-> 0xFF in the marker ciphertext) / 0x00 / 0x0A
    for th, n, ct, ht, buf, fixes in ((1, 33, 1, 0, 1, ((16, 255), (32, 255), (15, 255))), (1, 33, 2, 1, 1, ((16, 254), (32, 254), (31, 255))), (2, 48, 3, 2, 1, ((16, 255), (32, 254), (47, 0))),
                                      (2, 49, 4, 0, 1, ((16, 0), (32, 10), (48, 255))), (1, 65, 0, 1, 2, ((32, 255), (64, 254), (0, 255)))):
        ex = ['ROUNDTRIP']
        for i, (o, v) in enumerate(fixes):
            ex += ['FIX%d_OFF=%d' % (i + 1, o), 'FIX%d_VAL=%d' % (i + 1, v)]
        e2e_ob(r, 'roundtrip-boundary-bytes-T%d-len%d-c%d-h%d-chunk%d-%s' % (th, n, ct, ht, 16 * buf, '_'.join('%d=%02x' % f for f in fixes)), th, n, ct, ht, buf, extra=ex, timeout=900 if tier == 'quick' else 3600)
    # the text offset 48+20T for every worker count 1..16 (prepare_IV + prepare_AES on the real runcrypt; no hashing involved)
    ug, ureal = U_kern_gate(), U_kern('kern')
    for th in range(1, 17):
        fl = 48 + 20 * th + 16
        r.add(Ob('text-offset-T%d' % th, 'h_verify.c', [ug], defines=['H_SEEK', 'FLEN=%d' % fl, 'THREADS=%d' % th, 'SREF_MSGMAX=16'], unwind=max(400, fl + 40), timeout=300, envs=KERN_ENVS,
                 replay_units=[ureal], replay_envs=NATIVE_FILE_ENVS, cbmc_extra=FS))
    # "decryption restores": the real stream objects (decryptor inverts encryptor: obligations of C10) and the real block function (obligations of C09)
    c10.mode_obligations(r, tier, prefix='mode-')
    c09.block_obligations(r, tier, prefix='block-')
    r.bounds = ['(T, plaintext bytes, cipher mode byte, hash mode, chunk bytes) in %s; all plaintext contents, keys and seeds of %d bytes symbolic; canonical schedule (C03 decides schedule independence)' % (cfgs if tier == 'quick' else '%d configurations' % len(cfgs), 5)]
    r.outside = ['production chunk size 16 MiB (the code uses BUF_SZ/sum only as fread size, comparison with the read count and array bound)', 'T > 3', 'the hash values (uninterpreted here; C07); in the end-to-end runs the cipher is an invertible marker - the real mode objects and the real block function are covered by the mode-* / block-* obligations (shared with C10 / C09)', 'I/O errors']
    r.assumptions = ['block cipher replaced by an invertible marker keyed by (stream, sequence number): decrypt(encrypt(P)) == P then shows padding, chunk distribution, header skip and gating are mutually inverse; stream inverse is C10',
                     'compression functions uninterpreted', 'tag comparison asserted equal (C08 decides the comparison)', 'std::thread/mutex/condition_variable per env/env_sched.c']
    r.run_all(jobs=14)
    return r.finish()

def replay(rp):
    return generic_replay(rp, {'kern_e2e_b1': lambda: U_kern('kern', buf=1), 'kern_e2e_b2': lambda: U_kern('kern', buf=2), 'kern_gate': U_kern, 'aes': U_aes, 'aes_blkuf': U_aes, 'aes_uf': U_aes, 'aes_kuf': U_aes})
