from .common import *

def pipe_obs(r, tier, prefix='', canon=()):
    canon = list(canon)
    T = 600 if tier == 'quick' else 3600
    u = U_kern_pipe(1)
    ureal = U_kern('kern', buf=1)
    cfgs = []
    # (threads, data length in bytes, encrypt side?, K)
    if tier == 'quick':
        cfgs = [(1, 0, 1, 60), (1, 16, 1, 70), (1, 20, 1, 70), (1, 16, 0, 60), (1, 32, 0, 70), (2, 0, 1, 70), (2, 15, 1, 70), (2, 16, 0, 70)]
    else:
        cfgs = [(1, n, 1, 90) for n in (0, 5, 15, 16, 17, 31, 32, 33)] + [(1, n, 0, 90) for n in (16, 32, 48)] + \
               [(2, n, 1, 110) for n in (0, 15, 16, 17, 32)] + [(2, n, 0, 110) for n in (16, 32, 48)] + [(3, 16, 1, 120), (3, 32, 0, 120)]
    for th, n, enc, k in cfgs:
        r.add(Ob('%ssched-T%d-%s-len%d' % (prefix, th, 'enc' if enc else 'dec', n), 'h_pipe.c', [u],
                 defines=['THREADS=%d' % th, 'DLEN=%d' % n, 'ENC=%d' % enc, 'K=%d' % k] + PIPE_DEFS + canon, unwind=k + 40, timeout=T, mem_gb=24, envs=PIPE_ENVS,
                 solver='cadical', replay='none', cbmc_extra=['--max-field-sensitivity-array-size', '256'],
                 note='all interleavings of %d worker(s) + I/O thread at lock/wait/unlock/shared-access granularity, chunk = 16 bytes' % th))
    return cfgs

def run(tier):
    r = Run('C03', tier)
    cfgs = pipe_obs(r, tier)
    r.bounds = ['configurations (T, input bytes, side, schedule bound K): %s; chunk size override BUF_SZ=1 block; every schedule of length <= K (K checked sufficient by an assertion)' % cfgs]
    r.outside = ['larger T / more chunks', 'weak-memory effects (sequential consistency assumed)', 'production chunk size']
    r.assumptions = ['cipher replaced by a marker (C09/C10 decide the cipher)', 'std::mutex/condition_variable/thread semantics per env/env_sched.c', 'spurious wake-ups only in the thorough tier']
    r.run_all(jobs=8)
    return r.finish()

def replay(rp):
    return 0
