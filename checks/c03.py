"""C03 / C04 / C14 share one set of obligations (three facets of the hand-over protocol); PROP selects the id reported."""
from .common import *
import subprocess, json, hashlib, re, os
from vlib import BrokenCheck

FACET = {
    'C03': 'output independent of scheduling; each block transformed exactly once, by its stream, in order, written at its place',
    'C04': 'no deadlock / lost wake-up; every thread finishes within the bound on every schedule',
    'C14': 'buffers handed over exclusively: worker touches only its own READY buffer, I/O thread only EMPTY/UPDATING ones',
}

def model_cfgs(tier):
    # (threads, blocks per chunk, full chunks, blocks in final chunk, K, spurious wake-ups, solver, timeout)
    if tier == 'quick':
        return [(1, 1, 0, 1, 40, 0, 'cadical', 300), (1, 1, 1, 1, 56, 0, 'cadical', 300), (1, 2, 1, 1, 60, 0, 'cadical', 300), (2, 1, 0, 1, 60, 0, 'cadical', 600), (1, 1, 0, 1, 48, 2, 'cadical', 300)]
    return [(1, 1, 0, 1, 40, 0, 'cadical', 900), (1, 1, 1, 1, 56, 0, 'cadical', 900), (1, 1, 2, 1, 72, 0, 'cadical', 1800), (1, 2, 1, 2, 64, 0, 'cadical', 1800), (1, 1, 1, 1, 66, 2, 'cadical', 1800),
            (2, 1, 0, 1, 60, 0, 'cadical', 1800), (2, 1, 0, 1, 68, 2, 'cadical', 3600), (2, 2, 0, 2, 64, 0, 'cadical', 3600), (2, 1, 1, 1, 80, 0, 'kissat', 7200), (3, 1, 0, 1, 80, 0, 'kissat', 7200)]

def canon_cfgs(tier):
    if tier == 'quick':
        return [(1, 0, 1, 80), (1, 20, 1, 100), (2, 15, 1, 100), (2, 40, 1, 170), (1, 16, 0, 80), (2, 32, 0, 130), (3, 40, 1, 170)]
    return [(th, n, 1, 120 + 3 * n) for th in (1, 2, 3) for n in (0, 1, 15, 16, 17, 31, 32, 33, 47, 48, 64)] + [(th, n, 0, 120 + 3 * n) for th in (1, 2, 3) for n in (16, 32, 48, 64)]

def native_schedule_search(r, th, nfull, lastblk, bsz, seeds):
    """confirmation / replay on the REAL code: the real thread bodies as step functions (protocol unit), run natively under `seeds`
    pseudo-random schedules with the same monitor and ghost checks; returns (seed, message) of the first failing schedule or None"""
    u = U_proto(bsz)
    c, m = r.b.translate(u)
    d = r.ws.path('nsearch_T%d_%d_%d_%d' % (th, nfull, lastblk, bsz))
    os.makedirs(d, exist_ok=True)
    exe = os.path.join(d, 'search')
    envs = [os.path.join(VERIF, 'env', e) for e in ('env_heap.c', 'env_cxx.c', 'env_io.c', 'env_sched_proto.c')]
    cmd = ['gcc', '-std=gnu11', '-w', '-O1', '-I' + os.path.join(VERIF, 'engine'), '-I' + os.path.join(VERIF, 'env'), '-I' + os.path.join(VERIF, 'harness'),
           '-DMODEL_NATIVE', '-DSCHED_RANDOM', '-DTHREADS=%d' % th, '-DNFULL=%d' % nfull, '-DLASTBLK=%d' % lastblk, '-DBSZ=%d' % bsz, '-DK=4000',
           '-DIR2C_ACCESS(p,n,w)=rs_access((u8*)(p),(u64)(n),(w))', '-DRS_MAX_THREADS=4', c] + envs + [os.path.join(VERIF, 'harness', 'h_proto.c'), '-lm', '-o', exe]
    rr = subprocess.run(cmd, stdout=subprocess.PIPE, stderr=subprocess.PIPE, text=True)
    if rr.returncode != 0:
        raise BrokenCheck('native schedule search build failed: ' + rr.stderr[-1500:])
    for seed in range(1, seeds + 1):
        try:
            p = subprocess.run([exe, str(seed)], stdout=subprocess.PIPE, stderr=subprocess.PIPE, text=True, timeout=20)
            out = p.stdout + p.stderr
            if 'REPLAY-PASS' not in p.stdout:
                mm = re.search(r'REPLAY-FAIL: (.*)', out)
                return seed, (mm.group(1) if mm else 'exit %s: %s' % (p.returncode, out[-200:]))
        except subprocess.TimeoutExpired:
            return seed, 'hang (no termination within 20 s)'
    return None

def run(tier, prop='C03'):
    r = Run(prop, tier)
    T = 600 if tier == 'quick' else 3600
    # (1) the real synchronisation code refines the protocol model
    refinement_obligations(r, tier)
    # (2) every schedule of the model
    for th, bsz, nfull, last, k, sp, solver, to in model_cfgs(tier):
        r.add(Ob('model-all-schedules-T%d-chunk%dblk-%dfull+%d-K%d%s' % (th, bsz, nfull, last, k, '-spurious' if sp else ''), 'h_model.c', [],
                 defines=['THREADS=%d' % th, 'BSZ=%d' % bsz, 'NFULL=%d' % nfull, 'LASTBLK=%d' % last, 'K=%d' % k, 'SPURIOUS=%d' % sp], unwind=k + 5, timeout=to, mem_gb=24,
                 envs=[], solver=solver, replay='none', note='symbolic schedule vector of length K over T+1 threads; K proven sufficient by the final assertion'))
    # (3) the complete real code (threads as step functions, real load/export on the FILE model, marker cipher) under the canonical schedule, monitor on
    u = U_kern_pipe(1)
    for th, n, enc, k in canon_cfgs(tier):
        r.add(Ob('realcode-canonical-T%d-%s-len%d' % (th, 'enc' if enc else 'dec', n), 'h_pipe.c', [u], defines=['THREADS=%d' % th, 'DLEN=%d' % n, 'ENC=%d' % enc, 'K=%d' % k, 'SCHED_CANON'] + PIPE_DEFS,
                 unwind=k + 40, timeout=T, mem_gb=24, envs=PIPE_ENVS, replay='none', cbmc_extra=FS, note='one schedule (run until blocked), all input contents symbolic'))
    # (3a) C04 only: a pipeline that runs AFTER another one in the same process image terminates as well (the counters the termination
    #      argument rests on - bufferctrl::live_num, buffergroup::instance/turn - are back to their initial values; obligations shared with C15)
    if prop == 'C04':
        for (t1, n1, t2, n2) in ((2, 40, 1, 33), (1, 20, 2, 16)) if tier == 'quick' else ((3, 40, 1, 16), (3, 40, 2, 16), (2, 40, 1, 33), (1, 20, 2, 16), (2, 50, 3, 40), (3, 70, 1, 0)):
            k = 200 + 4 * (n1 + n2)
            r.add(Ob('second-pipeline-terminates-T%d-len%d-then-T%d-len%d' % (t1, n1, t2, n2), 'h_pipe.c', [u], defines=['THREADS=%d' % t1, 'DLEN=%d' % n1, 'ENC=1', 'K=%d' % k, 'SCHED_CANON', 'SECOND_T=%d' % t2, 'SECOND_LEN=%d' % n2] + PIPE_DEFS,
                     unwind=k + 40, timeout=900, mem_gb=24, envs=PIPE_ENVS, replay='none', cbmc_extra=FS, note='two pipelines in one process image, real code, canonical schedule'))
    # (3b) C03 only: stream objects are private to their worker (an object shared by two workers is raced on by their runcry calls)
    if prop == 'C03':
        ug, ureal = U_kern_gate(), U_kern('kern')
        for th in ((2, 3) if tier == 'quick' else (2, 3, 4, 8, 16)):
            for enc in (1, 0):
                r.add(Ob('streams-private-T%d-%s' % (th, 'enc' if enc else 'dec'), 'h_verify.c', [ug], defines=['H_STREAMS', 'FLEN=%d' % (20 * th + 16), 'THREADS=%d' % th, 'ENCDIR=%d' % enc, 'SREF_MSGMAX=16'],
                         unwind=max(400, 20 * th + 60), timeout=300, envs=KERN_ENVS, replay_units=[ureal], replay_envs=NATIVE_FILE_ENVS, cbmc_extra=FS,
                         note='real prepare_AES, any cipher mode 0..4 (symbolic), any key/IV: pairwise distinct stream objects'))
    r.run_all(jobs=10)
    # (4) confirmation on the real step functions for anything that failed in (1) or (2); also a standing differential validation of the model
    bad = [o for o in r.obs if o.status == 'CEX' and not o.name.startswith('streams-private')]
    nseeds = 300 if tier == 'quick' else 3000
    searches = []
    try:
        for (th, nfull, last, bsz) in ((2, 1, 1, 1), (2, 0, 1, 1), (1, 1, 1, 1), (3, 2, 1, 1), (2, 2, 2, 2)):
            hit = native_schedule_search(r, th, nfull, last, bsz, nseeds if (bad or tier != 'quick') else 100)
            searches.append(dict(threads=th, full_chunks=nfull, last_blocks=last, chunk_blocks=bsz, schedules=nseeds if (bad or tier != 'quick') else 100, failing=hit))
            if hit:
                break
    except BrokenCheck as e:
        r.notes.append('native schedule search unavailable: %s' % e)
        hit = None
    r.extra_cov['real_code_random_schedules'] = searches
    hits = [s for s in searches if s['failing']]
    def replay_canonical(o):
        """deterministic replay of a canonical-schedule counterexample: the same harness and the same generated C (the real code's IR, validated
        against the real build) compiled natively, inputs from the solver trace"""
        u = U_kern_pipe(1)
        cfile, m = r.b.translate(u)
        d = r.ws.path('creplay_' + re.sub(r'\W', '_', o.name)); os.makedirs(d, exist_ok=True)
        inc = os.path.join(d, 'replay_inputs.h')
        open(inc, 'w').write('#define REPLAY_ASSIGN() do { %s } while (0)\n' % ' '.join(a + ';' for a in (o.trace_inputs or [])))
        exe = os.path.join(d, 'replay')
        envs = [os.path.join(VERIF, 'env', e) for e in PIPE_ENVS]
        cmd = ['gcc', '-std=gnu11', '-w', '-O1', '-include', inc, '-I' + os.path.join(VERIF, 'engine'), '-I' + os.path.join(VERIF, 'env'), '-I' + os.path.join(VERIF, 'harness'), '-DMODEL_NATIVE'] + \
              ['-D' + x for x in o.defines] + [cfile] + envs + [os.path.join(VERIF, 'harness', 'h_pipe.c'), '-lm', '-o', exe]
        rr = subprocess.run(cmd, stdout=subprocess.PIPE, stderr=subprocess.PIPE, text=True)
        if rr.returncode != 0:
            return 'ERROR: ' + rr.stderr[-400:]
        try:
            p = subprocess.run([exe], stdout=subprocess.PIPE, stderr=subprocess.PIPE, text=True, timeout=30)
        except subprocess.TimeoutExpired:
            return 'REPRODUCED (hang)'
        if 'REPLAY-PASS' in p.stdout:
            return 'NOT-REPRODUCED'
        mm = re.search(r'REPLAY-FAIL: (.*)', p.stdout + p.stderr)
        return 'REPRODUCED (real thread bodies as step functions under the canonical schedule, native run: %s)' % (mm.group(1) if mm else 'exit %d' % p.returncode)
    for o in bad:
        o.replay = 'native'
        if (o.name.startswith('realcode-canonical') or o.name.startswith('second-pipeline')) and not hits:
            o.replay_result = replay_canonical(o)
            if o.replay_result.startswith('REPRODUCED'):
                rp = os.path.join(VERIF, 'replay'); os.makedirs(rp, exist_ok=True)
                o.replay_path = os.path.join(rp, '%s-%s.json' % (prop, hashlib.sha1(o.name.encode()).hexdigest()[:10]))
                json.dump(dict(property=prop, obligation=o.name, kind='canonical', defines=o.defines, assignments=o.trace_inputs, failed=o.failed_props[:4]), open(o.replay_path, 'w'), indent=1)
            continue
        if hits:
            s = hits[0]
            o.replay_result = 'REPRODUCED (real thread bodies as step functions, T=%d, %d full chunks, pseudo-random schedule seed %d: %s)' % (s['threads'], s['full_chunks'], s['failing'][0], s['failing'][1])
            rp = os.path.join(VERIF, 'replay'); os.makedirs(rp, exist_ok=True)
            o.replay_path = os.path.join(rp, '%s-%s.json' % (prop, hashlib.sha1(o.name.encode()).hexdigest()[:10]))
            json.dump(dict(property=prop, obligation=o.name, kind='schedule-search', config=s, failed=o.failed_props[:4]), open(o.replay_path, 'w'), indent=1)
        else:
            o.replay_result = 'NOT-REPRODUCED (protocol differs from harness/model_proto.h but no violating schedule among the real-code schedules tried)'
    if hits and not bad:
        # the real code fails under some schedule although every obligation passed: the model or the refinement argument is wrong -> broken check
        r.notes.append('INCONSISTENT: real-code schedule search fails while all obligations hold')
        print('BROKEN check %s: real-code schedule search found a failure that the obligations did not: %s' % (prop, hits[0]))
        r.finish()
        return 2
    mcs = model_cfgs(tier)
    r.bounds = ['refinement: arbitrary states / arbitrary leaf outcomes, T in %s' % ('{2,3}' if tier == 'quick' else '{1,2,3,4}'),
                'model, ALL schedules: (T, blocks/chunk, full chunks, final blocks, K, spurious) in %s' % [c[:6] for c in mcs],
                'real code, canonical schedule: (T, bytes, encrypt?, K) in %s' % canon_cfgs(tier)]
    r.outside = ['full symbolic interleavings over the untranslated-to-model real code: CBMC returns no verdict within 900 s / 11 GB even for T=1 (DESIGN 4.3); the decomposition real code == model (solver) + model under all schedules (solver) is used instead',
                 'T > 3, more chunks than listed, weak-memory effects (sequential consistency; unsynchronised cmpstate/haslive reads are treated as atomic reads)']
    r.assumptions = ['facet decided: ' + FACET[prop], 'critical sections are atomic w.r.t. each other (justified by L1: state/live_num only touched under the buffer mutex, blocking only in condition_variable::wait)',
                     'load contract: FULL^n then FINAL with at least one block (decided on the real load_buffer by the end-to-end obligations of C01)', 'cipher = marker']
    return r.finish()

def replay(rp):
    r = Run(rp['property'], 'replay')
    if rp.get('kind') == 'canonical':
        print('re-run ./check %s quick: canonical-schedule counterexamples are deterministic (obligation %s, defines %s)' % (rp['property'], rp['obligation'], rp['defines']))
        return 1
    if 'config' not in rp:
        return generic_replay(rp, {'kern_gate': U_kern_gate, 'kern': U_kern})
    s = rp['config']
    hit = native_schedule_search(r, s['threads'], s['full_chunks'], s['last_blocks'], s['chunk_blocks'], max(s['failing'][0], 1) if s.get('failing') else 300)
    print('schedule search:', hit)
    return 1 if hit else 0
