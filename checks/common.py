import os, sys
from vlib import Unit, Ob, Run, VERIF

def U_base64(): return Unit('base64', 'base64_shim.cpp')
def U_aes(): return Unit('aes', 'aes_shim.cpp')
AES_UF = ['--replace', '_Z20encryaes_commonroundR7state_tRKS_=uf_enc_common', '--replace', '_Z18encryaes_specroundR7state_tRKS_S2_=uf_enc_spec',
          '--replace', '_Z20decryaes_commonroundR7state_tRKS_=uf_dec_common', '--replace', '_Z18decryaes_specroundR7state_tRKS_S2_=uf_dec_spec']
def U_aes_uf(): return Unit('aes_uf', 'aes_shim.cpp', clang_extra=['-fno-exceptions', '-fno-inline'], ir2c_args=AES_UF)
AES_BLK_UF = ['--replace', '_ZN8encryaes13runaes_128bitEPh=uf_aes_enc', '--replace', '_ZN8decryaes13runaes_128bitEPh=uf_aes_dec']
def U_aes_blkuf(): return Unit('aes_blkuf', 'aes_shim.cpp', ir2c_args=AES_BLK_UF)
def U_aes_kuf(): return Unit('aes_kuf', 'aes_shim.cpp', clang_extra=['-fno-exceptions', '-fno-inline'], ir2c_args=['--replace', '_ZN9aeshandle9keyhandle6genkeyEi=uf_genkey'])

def generic_replay(rp, units_by_name):
    """re-run a recorded counterexample natively against the real sources"""
    r = Run(rp['property'], 'replay')
    ob = Ob(rp['obligation'], rp['harness'], [units_by_name[n]() for n in rp['units']], defines=rp['defines'], replay_envs=rp.get('replay_envs'))
    res = r.replay_native(ob, assignments=rp['assignments'], keep=False)
    print('replay %s: %s' % (rp['obligation'], res))
    print(getattr(ob, 'replay_output', '')[-1500:])
    return 1 if res.startswith('REPRODUCED') else 0

HASH_REC = ['--replace', '_ZN8sha1hash7getHashEPKh=rec_compress', '--replace', '_ZN7md5hash7getHashEPKh=rec_compress', '--replace', '_ZN10sha256hash7getHashEPKh=rec_compress']
def U_hash(hbuf=2): return Unit('hash', 'hash_shim.cpp', defines=['WENCRY_VERIF_HBUF_SZ=%d' % hbuf])
def U_hash_rec(hbuf=2): return Unit('hash_rec', 'hash_shim.cpp', defines=['WENCRY_VERIF_HBUF_SZ=%d' % hbuf], ir2c_args=HASH_REC)

KERN_SRCS = ['kernel/fheader.cpp', 'kernel/cry.cpp', 'kernel/hash/hashmaster.cpp', 'kernel/hash/hashbuffer.cpp', 'kernel/hash/sha1.cpp', 'kernel/hash/md5.cpp',
             'kernel/hash/sha256.cpp', 'kernel/multi_aes/aes/aes.cpp', 'kernel/multi_aes/aes/aesmode.cpp', 'kernel/multi_aes/multi_buffergroup.cpp', 'kernel/multi_aes/multicry.cpp']
UF_HASH = ['--replace', '_ZN8sha1hash7getHashEPKh=uf_compress', '--replace', '_ZN7md5hash7getHashEPKh=uf_compress', '--replace', '_ZN10sha256hash7getHashEPKh=uf_compress']
NOPRINT = []   # filled below: ResultPrint methods are replaced by empty stubs (printing is not the subject of any property)
def U_kern(name='kern', buf=2, hbuf=2, extra=()):
    return Unit(name, 'kern_shim.cpp', defines=['WENCRY_VERIF_BUF_SZ=%d' % buf, 'WENCRY_VERIF_HBUF_SZ=%d' % hbuf], extra_srcs=KERN_SRCS, ir2c_args=list(extra))
KERN_ENVS = ['env_heap.c', 'env_cxx.c', 'env_file.c', 'env_io.c', 'env_sync_seq.c']

STUB_PIPE = ['--replace', '_ZN15multicry_master12run_multicryEPP7AesmodeRKSt8functionIFvNSt7__cxx1112basic_stringIcSt11char_traitsIcESaIcEEEmEE=stub_run_multicry']
STUB_KEYS = ['--replace', '_ZN9aeshandle9keyhandleC2EPKh=stub_keyhandle']
def U_kern_gate(): return U_kern('kern_gate', extra=UF_HASH + STUB_PIPE + STUB_KEYS)
NATIVE_FILE_ENVS = ['env_native.c', 'env_native_file.c']

def gate_obligations(r, tier, lens, prefix='', ops=('decrypt', 'verify'), threads=(1,)):
    """the verify/decrypt gate over arbitrary byte strings of each length in lens (used by C05, C06, C11)"""
    u, ureal = U_kern_gate(), U_kern('kern')
    T = 300 if tier == 'quick' else 1800
    for n in lens:
        for op in ops:
            for th in threads:
                hts = (None,) if n < 10 else (0, 1, 2, 3, 127, 128, 255)
                for ht in hts:
                    d = ['H_GATE', 'FLEN=%d' % n, 'THREADS=%d' % th, 'SREF_MSGMAX=%d' % (n + 8)] + (['OP_VERIFY'] if op == 'verify' else []) + ([] if ht is None else ['HTFIX=%d' % ht])
                    r.add(Ob('%sgate-%s-len%d-T%d%s' % (prefix, op, n, th, '' if ht is None else '-h%s' % ht), 'h_verify.c', [u], defines=d,
                             unwind=max(400, n + 130), timeout=T, envs=KERN_ENVS, replay_units=[ureal], replay_envs=NATIVE_FILE_ENVS, cbmc_extra=['--max-field-sensitivity-array-size', '256']))

RUNCRY = ['_ZN10AesECB_Enc6runcryEPh', '_ZN10AesECB_Dec6runcryEPh', '_ZN10AesCBC_Enc6runcryEPh', '_ZN10AesCBC_Dec6runcryEPh', '_ZN6AesCTR6runcryEPh',
          '_ZN10AesCFB_Enc6runcryEPh', '_ZN10AesCFB_Dec6runcryEPh', '_ZN6AesOFB6runcryEPh']
CVWAIT = '_ZNSt18condition_variable4waitERSt11unique_lockISt5mutexE'
TWAIT = ['pthread_cond_clockwait', 'pthread_cond_timedwait']     # what wait_for / wait_until compile to
TSTART = '_ZNSt6thread15_M_start_threadESt10unique_ptrINS_6_StateESt14default_deleteIS1_EEPFvvE'
TJOIN = '_ZNSt6thread4joinEv'
SCHED_ARGS = ['--auto-resumable', '--yield-calls', ','.join(['pthread_mutex_lock', 'pthread_mutex_unlock', CVWAIT, TSTART, TJOIN] + TWAIT), '--yield-after', 'pthread_mutex_unlock',
              '--yield-twophase', ','.join([CVWAIT] + TWAIT), '--shared-yield', '--monitor']
PIPE_ROOTS = 'vf_pipe_run,vf_mode_make,vf_bg_buflst,vf_bg_state,vf_bg_nbuf,vf_iobuffer_size,vf_buf_sz,vf_bg_instance_null,vf_bg_live,vf_thread_decode'
def U_kern_pipe(buf=1):
    rep = []
    for f in RUNCRY:
        rep += ['--replace', '%s=mark_runcry' % f]
    return U_kern('kern_pipe_b%d' % buf, buf=buf, extra=SCHED_ARGS + rep + UF_HASH + STUB_KEYS + ['--roots', PIPE_ROOTS])
PIPE_ENVS = ['env_heap.c', 'env_cxx.c', 'env_file.c', 'env_io.c', 'env_sched.c']
PIPE_DEFS = ['IR2C_ACCESS(p,n,w)=rs_access((u8*)(p),(u64)(n),(w))', 'MONITOR', 'RS_MAX_THREADS=4']

E2E_ROOTS = 'vf_hmac_get,vf_rc_new,vf_rc_encrypt,vf_rc_decrypt,vf_rc_verify_op,vf_bg_instance_null,vf_bg_live,vf_buf_sz,vf_mode_getiv,vf_keyhandle_initkey_off,vf_thread_decode,vf_hash_get_total,vf_hash_set_total,vf_hash_words'
def U_kern_e2e(buf=1):
    rep = []
    for f in RUNCRY:
        rep += ['--replace', '%s=xmark_runcry' % f]
    args = [a for a in SCHED_ARGS if a != '--monitor']
    rep += ['--replace', '_ZN4hmac7cmphmacEhPhP8_IO_FILEPKhm=stub_cmphmac']
    return U_kern('kern_e2e_b%d' % buf, buf=buf, extra=args + rep + UF_HASH + STUB_KEYS + ['--roots', E2E_ROOTS])
E2E_DEFS = ['RS_MAX_THREADS=4', 'GHOST_MAX=4096']
FS = ['--max-field-sensitivity-array-size', '2048']
def e2e_ob(r, name, th, plen, ct=1, ht=0, buf=1, extra=(), k=None, timeout=600, known_key=None):
    u, ureal = U_kern_e2e(buf), U_kern('kern', buf=buf)
    k = k or (140 + 30 * (plen // (16 * buf) + 1) * 2)
    return r.add(Ob(name, 'h_e2e.c', [u], defines=['THREADS=%d' % th, 'PLEN=%d' % plen, 'CT=%d' % ct, 'HT=%d' % ht, 'K=%d' % k, 'SREF_MSGMAX=%d' % (plen + 160 + max([int(x.split('=')[1]) for x in extra if x.startswith('SEEDLEN=')] + [0]))] + E2E_DEFS + list(extra),
                    unwind=max(k + 40, plen + 200, 80 + max([int(x.split('=')[1]) for x in extra if x.startswith('SEEDLEN=')] + [0])), timeout=timeout, mem_gb=24, envs=PIPE_ENVS, replay_units=[ureal], replay_envs=NATIVE_FILE_ENVS, cbmc_extra=FS, known_key=known_key))

PROTO_SRCS = ['kernel/multi_aes/multi_buffergroup.cpp', 'kernel/multi_aes/multicry.cpp']
PROTO_REPL = ['--replace', '_ZN8iobuffer11load_bufferEP8_IO_FILEb=stub_load', '--replace', '_ZN8iobuffer13export_bufferEP8_IO_FILEb=stub_export',
              '--replace', '_ZNKSt8functionIFvNSt7__cxx1112basic_stringIcSt11char_traitsIcESaIcEEEmEEclES5_m=stub_printload',
              '--replace', '_ZNSt7__cxx119to_stringEj=stub_to_string',
              '--replace', '_ZStplIcSt11char_traitsIcESaIcEENSt7__cxx1112basic_stringIT_T0_T1_EEPKS5_OS8_=stub_strplus']
PROTO_ROOTS = 'vf_proto_setup,vf_proto_io,vf_proto_worker,vf_proto_teardown,vf_markmode_new,vf_bg_buflst,vf_bg_state,vf_bg_nbuf,vf_iobuffer_size,vf_buf_sz,vf_bg_instance_null,vf_bg_live,vf_iob_set,vf_iob_total,vf_iob_now,vf_iob_isfinal,vf_iob_block_off'
PROTO_SCHED = ['--auto-resumable', '--yield-calls', ','.join(['pthread_mutex_lock', 'pthread_mutex_unlock', CVWAIT] + TWAIT), '--yield-after', 'pthread_mutex_unlock',
               '--yield-twophase', ','.join([CVWAIT] + TWAIT), '--shared-yield', '--monitor']
def U_proto(buf=1):
    return Unit('proto_b%d' % buf, 'proto_shim.cpp', defines=['WENCRY_VERIF_BUF_SZ=%d' % buf], clang_extra=['-fno-exceptions', '-fno-inline'],
                extra_srcs=PROTO_SRCS, ir2c_args=PROTO_SCHED + PROTO_REPL + ['--roots', PROTO_ROOTS])
PROTO_ENVS = ['env_heap.c', 'env_cxx.c', 'env_io.c', 'env_sched_proto.c']

PROTO_STR = ['--replace', '_ZNSt7__cxx119to_stringEj=stub_to_string', '--replace', '_ZStplIcSt11char_traitsIcESaIcEENSt7__cxx1112basic_stringIT_T0_T1_EEPKS5_OS8_=stub_strplus']
L_CMP = ['--replace', '_ZNK10bufferctrl8cmpstateE10bufstate_t=o_cmpstate']
L_GET = ['--replace', '_ZN8iobuffer9get_entryEv=o_get_entry']
L_SETUPD = ['--replace', '_ZN10bufferctrl10set_updateEv=o_set_update']
L_WAITRDY = ['--replace', '_ZN10bufferctrl10wait_readyEv=o_wait_ready']
L_WAITUPD = ['--replace', '_ZN10bufferctrl11wait_updateEv=o_wait_update']
L_SETRDY = ['--replace', '_ZN10bufferctrl9set_readyEb=o_set_ready']
L_HASLIVE = ['--replace', '_ZN10bufferctrl7hasliveEv=o_haslive']
L_LOAD = ['--replace', '_ZN8iobuffer11load_bufferEP8_IO_FILEb=o_load', '--replace', '_ZN8iobuffer13export_bufferEP8_IO_FILEb=o_export',
          '--replace', '_ZNKSt8functionIFvNSt7__cxx1112basic_stringIcSt11char_traitsIcESaIcEEEmEEclES5_m=o_printload']
L_REQ = ['--replace', '_ZN11buffergroup20require_buffer_entryEh=o_require']
L_BUFUPD = ['--replace', '_ZN11buffergroup13buffer_updateERKSt8functionIFvNSt7__cxx1112basic_stringIcSt11char_traitsIcESaIcEEEmEE=o_buffer_update']
L_TURNITER = ['--replace', '_ZN11buffergroup9turn_iterEv=o_turn_iter']
REFINE_ROOTS = 'vf_ctrl_new,vf_ctrl_set_update,vf_ctrl_set_ready,vf_ctrl_wait_ready,vf_ctrl_wait_update,vf_ctrl_cmpstate,vf_haslive,vf_ctrl_state,vf_ctrl_set_state,vf_ctrl_state_addr,vf_ctrl_mutex,vf_ctrl_cv_ready,vf_ctrl_cv_update,vf_live_get,vf_live_set,vf_live_addr,vf_iob_new,vf_iob_get_entry,vf_iob_block,vf_iob_set,vf_iob_now,vf_iob_total,vf_proto_setup,vf_req,vf_bg_buffer_update,vf_bg_turn_iter,vf_bg_set_turn,vf_bg_set_over,vf_bg_over,vf_bg_turn,vf_bg_ctrl,vf_bg_buflst,vf_ctrl_size,vf_iobuffer_size,vf_buf_sz,vf_proto_io,vf_proto_worker,vf_markmode_new'
def U_refine(name, repl, monitor=False, buf=2):
    return Unit('refine_' + name, 'proto_shim.cpp', defines=['WENCRY_VERIF_BUF_SZ=%d' % buf], clang_extra=['-fno-exceptions', '-fno-inline'],
                extra_srcs=PROTO_SRCS, ir2c_args=(['--monitor'] if monitor else []) + list(repl) + PROTO_STR + ['--roots', REFINE_ROOTS])
REFINE_ENVS = ['env_heap.c', 'env_cxx.c', 'env_io.c']

def refinement_obligations(r, tier, prefix='refine-'):
    """L1/L2: the real synchronisation code equals harness/model_proto.h (shared by C03, C04, C14)"""
    T = 300
    acc = ['IR2C_ACCESS(p,n,w)=rs_access((u8*)(p),(u64)(n),(w))']
    ul = U_refine('leaf', [], monitor=True)
    names = {1: 'set_update', 2: 'set_ready', 3: 'wait_ready', 4: 'wait_update', 5: 'cmpstate-haslive', 6: 'get_entry'}
    for leaf in range(1, 7):
        r.add(Ob('%sL1-%s' % (prefix, names[leaf]), 'h_refine.c', [ul], defines=['H_LEAF', 'LEAF=%d' % leaf] + acc, unwind=12, timeout=T, envs=REFINE_ENVS, replay='none',
                 note='arbitrary start state; every wake-up may find an arbitrary state'))
    sk = {1: ('require_buffer_entry', L_CMP + L_GET + L_SETUPD + L_WAITRDY), 2: ('multiruncrypt_file', L_REQ),
          3: ('buffer_update', L_CMP + L_LOAD + L_SETRDY), 4: ('turn_iter', L_HASLIVE + L_CMP), 5: ('run_buffer', L_WAITUPD + L_BUFUPD + L_TURNITER)}
    for k, (nm, repl) in sk.items():
        for th in ((2, 3) if tier == 'quick' else (1, 2, 3, 4)):
            r.add(Ob('%sL2-%s-T%d' % (prefix, nm, th), 'h_refine.c', [U_refine('skel%d' % k, repl)], defines=['H_SKEL', 'SKEL=%d' % k, 'THREADS=%d' % th], unwind=40, timeout=T,
                     envs=REFINE_ENVS, replay='none', cbmc_extra=FS, note='arbitrary outcomes of every leaf call; arbitrary turn / over / id'))

CLI_SRCS = ['valget/getopts.cpp', 'valget/information.cpp', 'valget/getval1.cpp', 'valget/base64/base64.cpp', 'kernel/cry.cpp']
CLI_REPL = ['--replace', '_ZN8runcryptC2EP8_IO_FILES1_Ph8Settingsh=stub_rc_ctor', '--replace', '_ZN8runcrypt15execute_encryptEmPh=stub_rc_encrypt',
            '--replace', '_ZN8runcrypt15execute_decryptEm=stub_rc_decrypt', '--replace', '_ZN8runcrypt14execute_verifyEm=stub_rc_verify',
            '--replace', '_Z6strlogNSt7__cxx1112basic_stringIcSt11char_traitsIcESaIcEEES4_c=stub_strlog']
CLI_ROOTS = 'vf_main,vf_get_v_opt,vf_parseopts,vf_pak_new,vf_pak_set,vf_pak_fp,vf_pak_out,vf_pak_key,vf_pak_size,vf_pak_mode,vf_pak_ctype,vf_pak_htype,vf_pak_noecho,vf_rc_resultprint_off,vf_rc_sizeof,vf_pak_rbuf'
CLI_INC = ['-I' + os.path.join(VERIF, 'shim', 'cli')]
def U_cli(name='cli', extra=()):
    return Unit(name, 'cli_shim.cpp', clang_extra=CLI_INC, extra_srcs=['main.cpp'] + CLI_SRCS, ir2c_args=CLI_REPL + list(extra) + ['--exceptions', '--roots', CLI_ROOTS])
def U_cli_tail(): return U_cli('cli_tail', ['--replace', '_Z9parseOptscP6vpak_t=stub_parseopts'])
def U_cli_main(): return U_cli('cli_main', ['--replace', '_Z9get_v_optiPPc=stub_get_v_opt'])
def U_cli_real():
    """the real command-line program with the real kernel (native replay only)"""
    return Unit('cli_real', 'cli_shim.cpp', clang_extra=CLI_INC, extra_srcs=['main.cpp', 'valget/getopts.cpp', 'valget/information.cpp', 'valget/getval1.cpp', 'valget/base64/base64.cpp'] + KERN_SRCS)
CLI_ENVS = ['env_heap.c', 'env_cxx.c', 'env_exc.c', 'env_file.c', 'env_io.c', 'env_ctype.c']
