import os, sys
from vlib import Unit, Ob, Run, VERIF

def U_base64(): return Unit('base64', 'base64_shim.cpp')
def U_aes(): return Unit('aes', 'aes_shim.cpp')

def generic_replay(rp, units_by_name):
    """re-run a recorded counterexample natively against the real sources"""
    r = Run(rp['property'], 'replay')
    ob = Ob(rp['obligation'], rp['harness'], [units_by_name[n]() for n in rp['units']], defines=rp['defines'])
    res = r.replay_native(ob, assignments=rp['assignments'], keep=False)
    print('replay %s: %s' % (rp['obligation'], res))
    print(getattr(ob, 'replay_output', '')[-1500:])
    return 1 if res.startswith('REPRODUCED') else 0
