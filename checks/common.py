import os, sys
from vlib import Unit, Ob, Run, VERIF

def U_base64(): return Unit('base64', 'base64_shim.cpp')
def U_aes(): return Unit('aes', 'aes_shim.cpp')
AES_UF = ['--replace', '_Z20encryaes_commonroundR7state_tRKS_=uf_enc_common', '--replace', '_Z18encryaes_specroundR7state_tRKS_S2_=uf_enc_spec',
          '--replace', '_Z20decryaes_commonroundR7state_tRKS_=uf_dec_common', '--replace', '_Z18decryaes_specroundR7state_tRKS_S2_=uf_dec_spec']
def U_aes_uf(): return Unit('aes_uf', 'aes_shim.cpp', clang_extra=['-fno-exceptions', '-fno-inline'], ir2c_args=AES_UF)
AES_BLK_UF = ['--replace', '_ZN8encryaes13runaes_128bitEPh=uf_aes_enc', '--replace', '_ZN8decryaes13runaes_128bitEPh=uf_aes_dec']
def U_aes_blkuf(): return Unit('aes_blkuf', 'aes_shim.cpp', ir2c_args=AES_BLK_UF)
def U_aes_kuf(): return Unit('aes_kuf', 'aes_shim.cpp', clang_extra=['-fno-exceptions', '-fno-inline'], ir2c_args=['--replace', '_ZN9aeshandle9keyhandle6genkeyEi=uf_genkey'])

def generic_replay(rp, units_by_name):
    """re-run a recorded counterexample natively against the real sources"""
    r = Run(rp['property'], 'replay')
    ob = Ob(rp['obligation'], rp['harness'], [units_by_name[n]() for n in rp['units']], defines=rp['defines'])
    res = r.replay_native(ob, assignments=rp['assignments'], keep=False)
    print('replay %s: %s' % (rp['obligation'], res))
    print(getattr(ob, 'replay_output', '')[-1500:])
    return 1 if res.startswith('REPRODUCED') else 0

HASH_REC = ['--replace', '_ZN8sha1hash7getHashEPKh=rec_compress', '--replace', '_ZN7md5hash7getHashEPKh=rec_compress', '--replace', '_ZN10sha256hash7getHashEPKh=rec_compress']
def U_hash(hbuf=2): return Unit('hash', 'hash_shim.cpp', defines=['WENCRY_VERIF_HBUF_SZ=%d' % hbuf])
def U_hash_rec(hbuf=2): return Unit('hash_rec', 'hash_shim.cpp', defines=['WENCRY_VERIF_HBUF_SZ=%d' % hbuf], ir2c_args=HASH_REC)

KERN_SRCS = ['kernel/fheader.cpp', 'kernel/cry.cpp', 'kernel/hash/hashmaster.cpp', 'kernel/hash/hashbuffer.cpp', 'kernel/hash/sha1.cpp', 'kernel/hash/md5.cpp',
             'kernel/hash/sha256.cpp', 'kernel/multi_aes/aes/aes.cpp', 'kernel/multi_aes/aes/aesmode.cpp', 'kernel/multi_aes/multi_buffergroup.cpp', 'kernel/multi_aes/multicry.cpp']
UF_HASH = ['--replace', '_ZN8sha1hash7getHashEPKh=uf_compress', '--replace', '_ZN7md5hash7getHashEPKh=uf_compress', '--replace', '_ZN10sha256hash7getHashEPKh=uf_compress']
NOPRINT = []   # filled below: ResultPrint methods are replaced by empty stubs (printing is not the subject of any property)
def U_kern(name='kern', buf=2, hbuf=2, extra=()):
    return Unit(name, 'kern_shim.cpp', defines=['WENCRY_VERIF_BUF_SZ=%d' % buf, 'WENCRY_VERIF_HBUF_SZ=%d' % hbuf], extra_srcs=KERN_SRCS, ir2c_args=list(extra))
KERN_ENVS = ['env_heap.c', 'env_cxx.c', 'env_file.c', 'env_io.c', 'env_sync_seq.c']

STUB_PIPE = ['--replace', '_ZN15multicry_master12run_multicryEPP7AesmodeRKSt8functionIFvNSt7__cxx1112basic_stringIcSt11char_traitsIcESaIcEEEmEE=stub_run_multicry']
STUB_KEYS = ['--replace', '_ZN9aeshandle9keyhandleC2EPKh=stub_keyhandle']
def U_kern_gate(): return U_kern('kern_gate', extra=UF_HASH + STUB_PIPE + STUB_KEYS)
NATIVE_FILE_ENVS = ['env_native.c', 'env_native_file.c']

def gate_obligations(r, tier, lens, prefix='', ops=('decrypt', 'verify'), threads=(1,)):
    """the verify/decrypt gate over arbitrary byte strings of each length in lens (used by C05, C06, C11)"""
    u, ureal = U_kern_gate(), U_kern('kern')
    T = 300 if tier == 'quick' else 1800
    for n in lens:
        for op in ops:
            for th in threads:
                hts = (None,) if n < 10 else (0, 1, 2, 3, 127, 128, 255)
                for ht in hts:
                    d = ['H_GATE', 'FLEN=%d' % n, 'THREADS=%d' % th, 'SREF_MSGMAX=%d' % (n + 8)] + (['OP_VERIFY'] if op == 'verify' else []) + ([] if ht is None else ['HTFIX=%d' % ht])
                    r.add(Ob('%sgate-%s-len%d-T%d%s' % (prefix, op, n, th, '' if ht is None else '-h%s' % ht), 'h_verify.c', [u], defines=d,
                             unwind=max(400, n + 130), timeout=T, envs=KERN_ENVS, replay_units=[ureal], replay_envs=NATIVE_FILE_ENVS, cbmc_extra=['--max-field-sensitivity-array-size', '256']))
