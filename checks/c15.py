from .common import *

def run(tier):
    r = Run('C15', tier)
    cfgs = [(1, 16, 1, 0), (2, 33, 2, 1), (2, 0, 4, 2)] if tier == 'quick' else [(th, n, n % 5, n % 3) for th in (1, 2, 3) for n in (0, 15, 16, 33, 48)]
    for i, (th, n, ct, ht) in enumerate(cfgs):
        e2e_ob(r, 'three-ops-T%d-len%d-fail%d' % (th, n, 1 + i % 3), th, n, ct, ht, 1, extra=['ROUNDTRIP', 'PRE_FAIL=%d' % (1 + i % 3)], k=None, timeout=900 if tier == 'quick' else 3600)
    # two pipelines with DIFFERENT worker counts in one process image (real code, canonical schedule, marker cipher)
    up = U_kern_pipe(1)
    for (t1, n1, t2, n2) in ((3, 40, 1, 16), (2, 40, 1, 33), (1, 20, 2, 16)) if tier == 'quick' else ((3, 40, 1, 16), (3, 40, 2, 16), (2, 40, 1, 33), (1, 20, 2, 16), (2, 50, 3, 40), (3, 70, 1, 0)):
        k = 200 + 4 * (n1 + n2)
        r.add(Ob('two-pipelines-T%d-len%d-then-T%d-len%d' % (t1, n1, t2, n2), 'h_pipe.c', [up], defines=['THREADS=%d' % t1, 'DLEN=%d' % n1, 'ENC=1', 'K=%d' % k, 'SCHED_CANON', 'SECOND_T=%d' % t2, 'SECOND_LEN=%d' % n2] + PIPE_DEFS,
                 unwind=k + 40, timeout=900, mem_gb=24, envs=PIPE_ENVS, replay='none', cbmc_extra=FS))
    # CLI process globals (optind, fout; anchor valget/getopts.cpp): an earlier command line parsed in the same process image, ended on ANY exit path
    # (rejected inside the option loop, rejected after it, accepted), then the command line under test: it starts scanning at argv[1] and
    # everything C17's tail obligations establish holds unchanged -> the parse is independent of the history
    ut, ureal = U_cli_tail(), U_cli_real()
    for n in (1, 2):
        r.add(Ob('cli-parse-after-earlier-parse-%d-options' % n, 'h_c17.c', [ut], defines=['H_TAIL', 'TAIL_HISTORY', 'NOPT=%d' % n, 'ENV_NO_EXIT', 'IR2C_EXCEPTIONS'], unwind=270, timeout=600, mem_gb=16,
                 envs=CLI_ENVS, cbmc_extra=FS, replay_units=[ureal], replay_envs=['env_native.c', 'env_native_file.c'],
                 note='earlier parse: 0..3 options, each leaving an arbitrary Inv state, the last one rejected or not; parseOpts replaced by "any Inv state, any verdict" (C17 step obligations)'))
    # failing operations leave the process-global state initial: gate harness (C11) asserts it for every rejected input
    gate_obligations(r, tier, [0, 9, 74, 138] if tier == 'quick' else list(range(0, 161, 10)), prefix='reject-', ops=('decrypt', 'verify'))
    r.bounds = ['histories: failing decrypt, then encrypt, then decrypt of its output, in one process image, for %s; after EVERY operation the mutable process globals of the kernel (buffergroup::instance, bufferctrl::live_num, buffergroup::mtx) are asserted to be in their initial state, which makes each operation\'s behaviour independent of the history (induction over histories)' % cfgs]
    r.outside = ['glibc-internal getopt state other than optind (nextchar inside a bundled option word)', 'libc-internal state (rand), heap exhaustion']
    r.assumptions = ['as C01']
    r.run_all(jobs=10)
    return r.finish()

def replay(rp):
    return generic_replay(rp, {'cli_tail': U_cli_real, 'cli_real': U_cli_real, 'kern_e2e_b1': lambda: U_kern('kern', buf=1), 'kern_gate': U_kern, 'kern': U_kern})
