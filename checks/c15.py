from .common import *

def run(tier):
    r = Run('C15', tier)
    cfgs = [(1, 16, 1, 0), (2, 33, 2, 1), (2, 0, 4, 2)] if tier == 'quick' else [(th, n, n % 5, n % 3) for th in (1, 2, 3) for n in (0, 15, 16, 33, 48)]
    for th, n, ct, ht in cfgs:
        e2e_ob(r, 'three-ops-T%d-len%d' % (th, n), th, n, ct, ht, 1, extra=['ROUNDTRIP', 'PRE_FAIL'], k=None, timeout=900 if tier == 'quick' else 3600)
    # failing operations leave the process-global state initial: gate harness (C11) asserts it for every rejected input
    gate_obligations(r, tier, [0, 9, 74, 138] if tier == 'quick' else list(range(0, 161, 10)), prefix='reject-', ops=('decrypt', 'verify'))
    r.bounds = ['histories: failing decrypt, then encrypt, then decrypt of its output, in one process image, for %s; after EVERY operation the mutable process globals of the kernel (buffergroup::instance, bufferctrl::live_num, buffergroup::mtx) are asserted to be in their initial state, which makes each operation\'s behaviour independent of the history (induction over histories)' % cfgs]
    r.outside = ['getopt state / fout of the CLI (C17)', 'libc-internal state (rand), heap exhaustion']
    r.assumptions = ['as C01']
    r.run_all(jobs=10)
    return r.finish()

def replay(rp):
    return generic_replay(rp, {'kern_e2e_b1': lambda: U_kern('kern', buf=1), 'kern_gate': U_kern, 'kern': U_kern})
