from .common import *

def run(tier):
    r = Run('C15', tier)
    cfgs = [(1, 16, 1, 0), (2, 33, 2, 1), (2, 0, 4, 2)] if tier == 'quick' else [(th, n, n % 5, n % 3) for th in (1, 2, 3) for n in (0, 15, 16, 33, 48)]
    for i, (th, n, ct, ht) in enumerate(cfgs):
        e2e_ob(r, 'three-ops-T%d-len%d-fail%d' % (th, n, 1 + i % 3), th, n, ct, ht, 1, extra=['ROUNDTRIP', 'PRE_FAIL=%d' % (1 + i % 3)], k=None, timeout=900 if tier == 'quick' else 3600)
    # two pipelines with DIFFERENT worker counts in one process image (real code, canonical schedule, marker cipher)
    up = U_kern_pipe(1)
    for (t1, n1, t2, n2) in ((3, 40, 1, 16), (2, 40, 1, 33), (1, 20, 2, 16)) if tier == 'quick' else ((3, 40, 1, 16), (3, 40, 2, 16), (2, 40, 1, 33), (1, 20, 2, 16), (2, 50, 3, 40), (3, 70, 1, 0)):
        k = 200 + 4 * (n1 + n2)
        r.add(Ob('two-pipelines-T%d-len%d-then-T%d-len%d' % (t1, n1, t2, n2), 'h_pipe.c', [up], defines=['THREADS=%d' % t1, 'DLEN=%d' % n1, 'ENC=1', 'K=%d' % k, 'SCHED_CANON', 'SECOND_T=%d' % t2, 'SECOND_LEN=%d' % n2] + PIPE_DEFS,
                 unwind=k + 40, timeout=900, mem_gb=24, envs=PIPE_ENVS, replay='none', cbmc_extra=FS))
    # failing operations leave the process-global state initial: gate harness (C11) asserts it for every rejected input
    gate_obligations(r, tier, [0, 9, 74, 138] if tier == 'quick' else list(range(0, 161, 10)), prefix='reject-', ops=('decrypt', 'verify'))
    r.bounds = ['histories: failing decrypt, then encrypt, then decrypt of its output, in one process image, for %s; after EVERY operation the mutable process globals of the kernel (buffergroup::instance, bufferctrl::live_num, buffergroup::mtx) are asserted to be in their initial state, which makes each operation\'s behaviour independent of the history (induction over histories)' % cfgs]
    r.outside = ['getopt state / fout of the CLI (C17)', 'libc-internal state (rand), heap exhaustion']
    r.assumptions = ['as C01']
    r.run_all(jobs=10)
    return r.finish()

def replay(rp):
    return generic_replay(rp, {'kern_e2e_b1': lambda: U_kern('kern', buf=1), 'kern_gate': U_kern, 'kern': U_kern})
