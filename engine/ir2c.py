#!/usr/bin/env python3
"""ir2c.py - translate LLVM 14 textual IR (typed pointers) into C for CBMC.

Scope (see DESIGN.md section 3): integer ops, icmp, select, phi, br/switch/ret/unreachable,
alloca, load/store, getelementptr (typed: IR struct types are reproduced as C structs),
casts, direct and indirect calls, extractvalue/insertvalue, the memcpy/memset/memmove/
bswap/fshl/fshr/umin/umax/smin/smax/abs/usub.sat/lifetime intrinsics, floating point
(translated 1:1 to C double/float; only printing code uses it), invoke as call+normal edge.

Every SSA value of pointer type is a `u8*` in C; every access casts to the IR's type.
Defined symbols get the prefix PFX (default ""), undefined (external) symbols get "X_"
so that the environment model (env/*.c) supplies them and nothing clashes with CBMC's
built-in C library.

Resumable mode (--resumable f,...): the named functions are emitted as step functions
whose locals live in a per-thread frame and which return to the scheduler at every
visible operation (see emit_resumable).
"""
import re, sys, json, argparse, collections

# ----------------------------------------------------------------------------- lexer
TOK = re.compile(r'''
   (?P<ws>\s+|;[^\n]*)
 | (?P<str>c?"(?:[^"\\]|\\.)*")
 | (?P<lid>%(?:[-a-zA-Z$._0-9]+|"(?:[^"\\]|\\.)*"))
 | (?P<gid>@(?:[-a-zA-Z$._0-9]+|"(?:[^"\\]|\\.)*"))
 | (?P<meta>!(?:[-a-zA-Z$._0-9]+|"(?:[^"\\]|\\.)*")?)
 | (?P<attr>\#\d+)
 | (?P<comdat>\$(?:[-a-zA-Z$._0-9]+|"(?:[^"\\]|\\.)*"))
 | (?P<float>-?\d+\.\d*(?:[eE][+-]?\d+)?|0x[KLMHR]?[0-9a-fA-F]+)
 | (?P<int>-?\d+)
 | (?P<word>[a-zA-Z_][a-zA-Z0-9_.]*)
 | (?P<dots>\.\.\.)
 | (?P<punct>[()\[\]{}<>,=*|:])
''', re.X)


def lex(s):
    out = []
    pos = 0
    n = len(s)
    while pos < n:
        m = TOK.match(s, pos)
        if not m:
            raise SyntaxError('lex error at %r' % s[pos:pos + 40])
        pos = m.end()
        k = m.lastgroup
        if k == 'ws':
            continue
        out.append((k, m.group(k)))
    return out


def unq(name):
    # %"foo" -> foo ; keep sigil stripped
    n = name[1:]
    if n.startswith('"'):
        n = n[1:-1]
    return n


# ----------------------------------------------------------------------------- types
class Ty:
    __slots__ = ('k', 'bits', 'elem', 'n', 'name', 'fields', 'packed', 'ret', 'params', 'vararg')

    def __init__(self, k, **kw):
        self.k = k
        self.bits = self.elem = self.n = self.name = self.fields = self.ret = self.params = None
        self.packed = False
        self.vararg = False
        for a, b in kw.items():
            setattr(self, a, b)

    def key(self):
        k = self.k
        if k == 'int':
            return 'i%d' % self.bits
        if k == 'ptr':
            return self.elem.key() + '*'
        if k == 'arr':
            return '[%d x %s]' % (self.n, self.elem.key())
        if k == 'struct':
            if self.name is not None:
                return '%' + self.name
            b = ', '.join(f.key() for f in self.fields)
            return ('<{%s}>' if self.packed else '{%s}') % b
        if k == 'func':
            return '%s (%s%s)' % (self.ret.key(), ', '.join(p.key() for p in self.params), ', ...' if self.vararg else '')
        return k

    def __repr__(self):
        return self.key()


VOID = Ty('void')
I1, I8, I16, I32, I64 = (Ty('int', bits=b) for b in (1, 8, 16, 32, 64))
PTR8 = Ty('ptr', elem=I8)


class Module:
    def __init__(self):
        self.structs = collections.OrderedDict()   # name -> Ty(struct) (fields None if opaque)
        self.globals = collections.OrderedDict()   # name -> dict
        self.funcs = collections.OrderedDict()     # name -> Func (defined)
        self.decls = collections.OrderedDict()     # name -> Ty(func)
        self.ctors = []

    def resolve(self, t):
        if t.k == 'struct' and t.name is not None and t.fields is None:
            d = self.structs.get(t.name)
            if d is not None:
                return d
        return t

    # ---- data layout (x86_64)
    def align(self, t):
        t = self.resolve(t)
        k = t.k
        if k == 'int':
            return max(1, min(8, (1 << ((t.bits + 7) // 8 - 1).bit_length())))
        if k == 'ptr':
            return 8
        if k == 'double':
            return 8
        if k == 'float':
            return 4
        if k == 'x86_fp80':
            return 16
        if k == 'arr':
            return self.align(t.elem)
        if k == 'struct':
            if t.packed or not t.fields:
                return 1
            return max(self.align(f) for f in t.fields)
        raise ValueError('align of ' + repr(t))

    def size(self, t):
        t = self.resolve(t)
        k = t.k
        if k == 'int':
            b = (t.bits + 7) // 8
            return 1 << (b - 1).bit_length() if b > 1 else 1
        if k == 'ptr':
            return 8
        if k == 'double':
            return 8
        if k == 'float':
            return 4
        if k == 'x86_fp80':
            return 16
        if k == 'arr':
            return t.n * self.size(t.elem)
        if k == 'struct':
            if t.fields is None:
                raise ValueError('size of opaque ' + repr(t))
            off = 0
            for f in t.fields:
                if not t.packed:
                    a = self.align(f)
                    off = (off + a - 1) // a * a
                off += self.size(f)
            a = self.align(t)
            return (off + a - 1) // a * a
        raise ValueError('size of ' + repr(t))

    def field_offset(self, t, idx):
        t = self.resolve(t)
        off = 0
        for i, f in enumerate(t.fields):
            if not t.packed:
                a = self.align(f)
                off = (off + a - 1) // a * a
            if i == idx:
                return off
            off += self.size(f)
        raise IndexError


class Func:
    def __init__(self):
        self.name = None
        self.ret = None
        self.params = []     # [(Ty, name)]
        self.vararg = False
        self.blocks = collections.OrderedDict()  # label -> [instr]
        self.entry = None
        self.linkage = ''


# ----------------------------------------------------------------------------- parser
SKIP_WORDS = set('''private internal available_externally linkonce weak common appending extern_weak
linkonce_odr weak_odr external default hidden protected dso_local dso_preemptable ccc fastcc coldcc
noundef nonnull zeroext signext noalias inreg unnamed_addr local_unnamed_addr nocapture readonly readnone
writeonly returned immarg nofree nest swiftself swifterror tail musttail notail nuw nsw exact inbounds
fast nnan ninf nsz arcp contract afn reassoc volatile thread_local externally_initialized nonnull
noalias nocallback nosync nounwind willreturn mustprogress'''.split())
PAREN_ATTRS = set('dereferenceable dereferenceable_or_null sret byval byref preallocated inalloca elementtype align'.split())


class P:
    """token stream parser"""

    def __init__(self, toks, mod):
        self.t = toks
        self.i = 0
        self.m = mod

    def peek(self, o=0):
        j = self.i + o
        return self.t[j] if j < len(self.t) else ('eof', '')

    def next(self):
        x = self.peek()
        self.i += 1
        return x

    def accept(self, v):
        if self.peek()[1] == v:
            self.i += 1
            return True
        return False

    def expect(self, v):
        x = self.next()
        if x[1] != v:
            raise SyntaxError('expected %r got %r near %r' % (v, x, self.t[max(0, self.i - 8):self.i + 4]))

    def skip_attrs(self):
        """skip parameter / return attributes and flag words"""
        while True:
            k, v = self.peek()
            if k == 'word' and v in PAREN_ATTRS:
                if v == 'align':
                    self.i += 1
                    if self.peek()[0] == 'int':
                        self.i += 1
                    elif self.accept('('):
                        while not self.accept(')'):
                            self.i += 1
                    continue
                self.i += 1
                if self.accept('('):
                    d = 1
                    while d:
                        x = self.next()[1]
                        if x == '(':
                            d += 1
                        elif x == ')':
                            d -= 1
                continue
            if k == 'word' and v in SKIP_WORDS:
                self.i += 1
                continue
            if k == 'attr':
                self.i += 1
                continue
            return

    def type(self):
        k, v = self.next()
        if k == 'word':
            if v == 'void':
                t = VOID
            elif v[0] == 'i' and v[1:].isdigit():
                t = Ty('int', bits=int(v[1:]))
            elif v in ('double', 'float', 'x86_fp80', 'label', 'metadata', 'half', 'fp128', 'token'):
                t = Ty(v)
            elif v == 'opaque':
                t = Ty('opaque')
            elif v == 'ptr':
                t = PTR8
            else:
                raise SyntaxError('type? %r' % v)
        elif k == 'lid':
            t = Ty('struct', name=unq(v))
        elif v == '[':
            n = int(self.next()[1])
            self.expect('x')
            e = self.type()
            self.expect(']')
            t = Ty('arr', n=n, elem=e)
        elif v == '{':
            t = Ty('struct', fields=self._fields('}'))
        elif v == '<':
            if self.accept('{'):
                f = self._fields('}')
                self.expect('>')
                t = Ty('struct', fields=f, packed=True)
            else:
                n = int(self.next()[1])
                self.expect('x')
                e = self.type()
                self.expect('>')
                t = Ty('vec', n=n, elem=e)
        else:
            raise SyntaxError('type? %r %r' % (k, v))
        # suffixes
        while True:
            if self.accept('*'):
                t = Ty('ptr', elem=t)
            elif self.peek()[1] == '(' and t.k != 'label':
                # function type
                self.i += 1
                ps = []
                va = False
                if not self.accept(')'):
                    while True:
                        if self.accept('...'):
                            va = True
                        else:
                            ps.append(self.type())
                            self.skip_attrs()
                        if self.accept(')'):
                            break
                        self.expect(',')
                t = Ty('func', ret=t, params=ps, vararg=va)
            elif self.peek()[1] == 'addrspace':
                self.i += 1
                self.expect('(')
                self.next()
                self.expect(')')
            else:
                return t

    def _fields(self, close):
        f = []
        if self.accept(close):
            return f
        while True:
            f.append(self.type())
            if self.accept(close):
                return f
            self.expect(',')

    # ---- values
    def value(self, ty):
        k, v = self.next()
        if k == 'lid':
            return ('local', unq(v))
        if k == 'gid':
            return ('global', unq(v))
        if k == 'int':
            return ('int', int(v))
        if k == 'float':
            return ('float', v)
        if k == 'str':
            return ('cstr', cbytes(v[2:-1]))
        if k == 'word':
            if v == 'true':
                return ('int', 1)
            if v == 'false':
                return ('int', 0)
            if v == 'null':
                return ('null',)
            if v in ('undef', 'poison'):
                return ('undef',)
            if v == 'zeroinitializer':
                return ('zero',)
            if v == 'getelementptr':
                self.skip_attrs()
                self.expect('(')
                st = self.type()
                self.expect(',')
                ops = []
                while True:
                    self.accept('inrange')
                    t = self.type()
                    self.accept('inrange')
                    ops.append((t, self.value(t)))
                    if self.accept(')'):
                        break
                    self.expect(',')
                return ('gep', st, ops)
            if v in ('bitcast', 'inttoptr', 'ptrtoint', 'trunc', 'zext', 'sext', 'addrspacecast'):
                self.expect('(')
                t = self.type()
                x = self.value(t)
                self.expect('to')
                t2 = self.type()
                self.expect(')')
                return ('cast', v, (t, x), t2)
            if v in ('add', 'sub', 'mul', 'and', 'or', 'xor', 'shl', 'lshr', 'ashr'):
                self.skip_attrs()
                self.expect('(')
                t = self.type()
                a = self.value(t)
                self.expect(',')
                t2 = self.type()
                b = self.value(t2)
                self.expect(')')
                return ('binop', v, (t, a), (t2, b))
            if v == 'icmp':
                pred = self.next()[1]
                self.expect('(')
                t = self.type()
                a = self.value(t)
                self.expect(',')
                t2 = self.type()
                b = self.value(t2)
                self.expect(')')
                return ('icmpc', pred, (t, a), (t2, b))
            if v == 'select':
                self.expect('(')
                ops = []
                while True:
                    t = self.type()
                    ops.append((t, self.value(t)))
                    if self.accept(')'):
                        break
                    self.expect(',')
                return ('selectc', ops)
            raise SyntaxError('value? %r' % v)
        if v == '[':
            els = []
            if not self.accept(']'):
                while True:
                    t = self.type()
                    els.append((t, self.value(t)))
                    if self.accept(']'):
                        break
                    self.expect(',')
            return ('array', els)
        if v == '{':
            els = []
            if not self.accept('}'):
                while True:
                    t = self.type()
                    els.append((t, self.value(t)))
                    if self.accept('}'):
                        break
                    self.expect(',')
            return ('structv', els)
        if v == '<':
            self.expect('{')
            els = []
            if not self.accept('}'):
                while True:
                    t = self.type()
                    els.append((t, self.value(t)))
                    if self.accept('}'):
                        break
                    self.expect(',')
            self.expect('>')
            return ('structv', els)
        raise SyntaxError('value? %r %r' % (k, v))

    def tyval(self):
        t = self.type()
        self.skip_attrs()
        return (t, self.value(t))


def cbytes(s):
    out = bytearray()
    i = 0
    while i < len(s):
        c = s[i]
        if c == '\\':
            if s[i + 1] == '\\':
                out.append(92)
                i += 2
            else:
                out.append(int(s[i + 1:i + 3], 16))
                i += 3
        else:
            out.extend(c.encode('utf-8'))
            i += 1
    return bytes(out)


BINOPS = set('add sub mul udiv sdiv urem srem shl lshr ashr and or xor fadd fsub fmul fdiv frem'.split())
CASTS = set('trunc zext sext bitcast ptrtoint inttoptr uitofp sitofp fptoui fptosi fpext fptrunc addrspacecast'.split())


def parse_instr(p, line):
    """returns dict"""
    res = None
    if p.peek()[0] == 'lid' and p.peek(1)[1] == '=':
        res = unq(p.next()[1])
        p.next()
    p.skip_attrs()
    op = p.next()[1]
    I = {'op': op, 'res': res}
    if op in BINOPS:
        p.skip_attrs()
        t = p.type()
        a = p.value(t)
        p.expect(',')
        b = p.value(t)
        I.update(ty=t, a=a, b=b)
    elif op == 'fneg':
        p.skip_attrs()
        t = p.type()
        I.update(ty=t, a=p.value(t))
    elif op in ('icmp', 'fcmp'):
        p.skip_attrs()
        pred = p.next()[1]
        t = p.type()
        a = p.value(t)
        p.expect(',')
        b = p.value(t)
        I.update(pred=pred, ty=t, a=a, b=b)
    elif op in CASTS:
        t = p.type()
        a = p.value(t)
        p.expect('to')
        t2 = p.type()
        I.update(op='cast', cast=op, ty=t, a=a, to=t2)
    elif op == 'freeze':
        t = p.type()
        I.update(op='cast', cast='bitcast', ty=t, a=p.value(t), to=t)
    elif op == 'select':
        p.skip_attrs()
        c = p.tyval()
        p.expect(',')
        a = p.tyval()
        p.expect(',')
        b = p.tyval()
        I.update(c=c, a=a, b=b)
    elif op == 'phi':
        p.skip_attrs()
        t = p.type()
        inc = []
        while True:
            p.expect('[')
            v = p.value(t)
            p.expect(',')
            l = unq(p.next()[1])
            p.expect(']')
            inc.append((v, l))
            if not p.accept(','):
                break
        I.update(ty=t, inc=inc)
    elif op == 'load':
        p.skip_attrs()
        if p.accept('atomic'):
            p.skip_attrs()
            I['atomic'] = True
        t = p.type()
        p.expect(',')
        pt = p.type()
        I.update(ty=t, p=p.value(pt))
    elif op == 'store':
        p.skip_attrs()
        if p.accept('atomic'):
            p.skip_attrs()
            I['atomic'] = True
        t = p.type()
        v = p.value(t)
        p.expect(',')
        pt = p.type()
        I.update(ty=t, v=v, p=p.value(pt))
    elif op == 'alloca':
        p.accept('inalloca')
        t = p.type()
        n = None
        if p.accept(','):
            if p.peek()[1] != 'align' and p.peek()[1] != 'addrspace':
                nt = p.type()
                n = (nt, p.value(nt))
        I.update(ty=t, n=n)
    elif op == 'getelementptr':
        p.skip_attrs()
        st = p.type()
        p.expect(',')
        ops = []
        while True:
            t = p.type()
            ops.append((t, p.value(t)))
            if not p.accept(','):
                break
            if p.peek()[0] == 'meta':
                break
        I.update(srcty=st, ops=ops)
    elif op in ('call', 'invoke'):
        p.skip_attrs()
        rt = p.type()
        p.skip_attrs()
        # rt may be full function type (for varargs) -- callee value follows
        callee = p.value(rt)
        p.expect('(')
        args = []
        if not p.accept(')'):
            while True:
                t = p.type()
                p.skip_attrs()
                if t.k == 'metadata':
                    # metadata operand (noalias.scope.decl etc.)
                    p.next()
                    args.append((t, ('undef',)))
                else:
                    args.append((t, p.value(t)))
                if p.accept(')'):
                    break
                p.expect(',')
        fty = None
        if rt.k == 'ptr' and rt.elem.k == 'func':
            fty = rt.elem
            rt = fty.ret
        elif rt.k == 'func':
            fty = rt
            rt = fty.ret
        I.update(rt=rt, fty=fty, callee=callee, args=args)
        if op == 'invoke':
            p.skip_attrs()
            p.expect('to')
            p.expect('label')
            I['normal'] = unq(p.next()[1])
            p.expect('unwind')
            p.expect('label')
            I['unwind'] = unq(p.next()[1])
    elif op == 'br':
        if p.accept('label'):
            I.update(dest=unq(p.next()[1]))
        else:
            c = p.tyval()
            p.expect(',')
            p.expect('label')
            a = unq(p.next()[1])
            p.expect(',')
            p.expect('label')
            b = unq(p.next()[1])
            I.update(c=c, t=a, f=b)
    elif op == 'switch':
        v = p.tyval()
        p.expect(',')
        p.expect('label')
        d = unq(p.next()[1])
        p.expect('[')
        cases = []
        while not p.accept(']'):
            c = p.tyval()
            p.expect(',')
            p.expect('label')
            cases.append((c[1], unq(p.next()[1])))
        I.update(v=v, default=d, cases=cases)
    elif op == 'ret':
        t = p.type()
        I.update(ty=t, v=None if t.k == 'void' else p.value(t))
    elif op == 'unreachable':
        pass
    elif op == 'extractvalue':
        a = p.tyval()
        idx = []
        while p.accept(','):
            if p.peek()[0] != 'int':
                break
            idx.append(int(p.next()[1]))
        I.update(a=a, idx=idx)
    elif op == 'insertvalue':
        a = p.tyval()
        p.expect(',')
        e = p.tyval()
        idx = []
        while p.accept(','):
            if p.peek()[0] != 'int':
                break
            idx.append(int(p.next()[1]))
        I.update(a=a, e=e, idx=idx)
    elif op == 'landingpad':
        t = p.type()
        cl = []
        for mm in re.finditer(r'\bcatch i8\* (null|bitcast \([^@]*@("[^"]+"|[^\s)]+) to i8\*\)|@("[^"]+"|[^\s),]+))', line):
            cl.append(None if mm.group(1) == 'null' else (mm.group(2) or mm.group(3)).strip('"'))
        I.update(op='landingpad', ty=t, clauses=cl, cleanup=bool(re.search(r'\bcleanup\b', line)))
    elif op == 'resume':
        I.update(op='resume')
    elif op == 'fence':
        I.update(op='fence')
    elif op == 'cmpxchg':
        while p.peek()[1] in ('weak', 'volatile'):
            p.next()
        pt = p.type(); pv = p.value(pt)
        p.expect(',')
        t = p.type(); cmpv = p.value(t)
        p.expect(',')
        t2 = p.type(); newv = p.value(t2)
        I.update(ty=t, p=pv, cmp=cmpv, new=newv)
    elif op == 'atomicrmw':
        while p.peek()[1] == 'volatile':
            p.next()
        rop = p.next()[1]
        pt = p.type(); pv = p.value(pt)
        p.expect(',')
        t = p.type(); v = p.value(t)
        I.update(rmw=rop, ty=t, p=pv, v=v)
    else:
        raise NotImplementedError('instruction %r in %r' % (op, line))
    return I


def parse_module(text):
    m = Module()
    lines = text.split('\n')
    i = 0
    n = len(lines)
    # pass 1: struct types
    for ln in lines:
        if ln.startswith('%') and ' = type ' in ln:
            p = P(lex(ln), m)
            name = unq(p.next()[1])
            p.expect('=')
            p.expect('type')
            if p.peek()[1] == 'opaque':
                m.structs[name] = Ty('struct', name=name, fields=None)
            else:
                t = p.type()
                t.name = name
                m.structs[name] = t
    while i < n:
        ln = lines[i]
        if ln.startswith('@'):
            parse_global(m, ln)
        elif ln.startswith('declare '):
            p = P(lex(ln), m)
            p.next()
            p.skip_attrs()
            rt = p.type()
            name = unq(p.next()[1])
            p.expect('(')
            ps = []
            va = False
            if not p.accept(')'):
                while True:
                    if p.accept('...'):
                        va = True
                    else:
                        ps.append(p.type())
                        p.skip_attrs()
                        if p.peek()[0] == 'lid':
                            p.next()
                    if p.accept(')'):
                        break
                    p.expect(',')
            m.decls[name] = Ty('func', ret=rt, params=ps, vararg=va)
        elif ln.startswith('define '):
            j = i
            body = []
            while lines[j] != '}':
                j += 1
            f = parse_function(m, lines[i], lines[i + 1:j])
            m.funcs[f.name] = f
            i = j
        i += 1
    # function aliases (C1 -> C2 constructors etc.): rewrite references to the aliasee
    amap = {}
    for n, g in m.globals.items():
        a = g.get('alias')
        if a is not None:
            t = a
            while t[0] == 'cast':
                t = t[2][1]
            if t[0] == 'global' and t[1] in m.funcs:
                amap[n] = t[1]
    if amap:
        def rw(v):
            if isinstance(v, tuple):
                if len(v) == 2 and v[0] == 'global' and v[1] in amap:
                    return ('global', amap[v[1]])
                return tuple(rw(x) for x in v)
            if isinstance(v, list):
                return [rw(x) for x in v]
            return v
        for f in m.funcs.values():
            for b in f.blocks.values():
                for I in b:
                    for k in list(I.keys()):
                        if isinstance(I[k], (tuple, list)):
                            I[k] = rw(I[k])
        for g in m.globals.values():
            if g['init'] is not None:
                g['init'] = rw(g['init'])
        for n in amap:
            del m.globals[n]
    return m


def parse_global(m, ln):
    p = P(lex(ln), m)
    name = unq(p.next()[1])
    p.expect('=')
    linkage = ''
    while True:
        k, v = p.peek()
        if k == 'word' and v in ('global', 'constant', 'alias', 'ifunc'):
            break
        if v in ('private', 'internal', 'external', 'linkonce_odr', 'weak_odr', 'linkonce', 'weak', 'common', 'appending', 'available_externally', 'extern_weak'):
            linkage = v
        p.next()
        if v == 'thread_local' and p.peek()[1] == '(':
            while p.next()[1] != ')':
                pass
    kind = p.next()[1]
    if kind in ('alias', 'ifunc'):
        t = p.type()
        p.expect(',')
        t2 = p.type()
        tgt = p.value(t2)
        m.globals[name] = dict(name=name, ty=t, init=None, alias=tgt, const=True, linkage=linkage)
        return
    t = p.type()
    init = None
    if p.peek()[0] != 'eof' and p.peek()[1] != ',':
        init = p.value(t)
    m.globals[name] = dict(name=name, ty=t, init=init, const=(kind == 'constant'), linkage=linkage, alias=None)
    if name == 'llvm.global_ctors' and init and init[0] == 'array':
        for (et, ev) in init[1]:
            fn = ev[1][1][1]
            if fn[0] == 'global':
                m.ctors.append(fn[1])
            elif fn[0] == 'cast':
                m.ctors.append(fn[2][1][1])


def parse_function(m, header, body):
    f = Func()
    p = P(lex(header), m)
    p.next()  # define
    while p.peek()[0] == 'word' and p.peek()[1] in SKIP_WORDS | PAREN_ATTRS:
        if p.peek()[1] in ('internal', 'private', 'linkonce_odr', 'weak_odr', 'available_externally'):
            f.linkage = p.peek()[1]
        p.skip_attrs()
        if p.peek()[0] == 'word' and p.peek()[1] in ('internal', 'private', 'linkonce_odr', 'weak_odr', 'available_externally'):
            f.linkage = p.next()[1]
    f.ret = p.type()
    f.name = unq(p.next()[1])
    p.expect('(')
    cnt = 0
    if not p.accept(')'):
        while True:
            if p.accept('...'):
                f.vararg = True
            else:
                t = p.type()
                p.skip_attrs()
                if p.peek()[0] == 'lid':
                    nm = unq(p.next()[1])
                    if nm.isdigit():
                        cnt = int(nm) + 1
                else:
                    nm = str(cnt)
                    cnt += 1
                f.params.append((t, nm))
            if p.accept(')'):
                break
            p.expect(',')
    cur = None
    k = 0
    pending = None
    while k < len(body):
        ln = body[k]
        k += 1
        s = ln.strip()
        if not s or s.startswith(';'):
            continue
        mm = re.match(r'^([-a-zA-Z$._0-9]+|"[^"]*"):', ln)
        if mm:
            lab = mm.group(1)
            if lab.startswith('"'):
                lab = lab[1:-1]
            cur = lab
            f.blocks[cur] = []
            continue
        if cur is None:
            cur = str(cnt)
            f.blocks[cur] = []
        if s.startswith('switch') or ' switch ' in s[:20]:
            while ']' not in ln:
                ln = ln + ' ' + body[k]
                k += 1
        if re.search(r'\blandingpad\b', s) or re.search(r'^\s*(%\S+ = )?invoke\b', ln):
            # landingpad clauses / invoke continuation lines
            while k < len(body) and re.match(r'^\s+(to label|cleanup|catch|filter)\b', body[k]):
                ln = ln + ' ' + body[k]
                k += 1
        toks = lex(ln)
        I = parse_instr(P(toks, m), ln)
        f.blocks[cur].append(I)
    f.entry = next(iter(f.blocks))
    return f


# ----------------------------------------------------------------------------- emitter
def san(s):
    return re.sub(r'[^A-Za-z0-9_]', '_', s)


class Emitter:
    def __init__(self, mod, pfx='', replace=None, resumable=(), monitor=False):
        self.m = mod
        self.pfx = pfx
        self.replace = replace or {}
        self.resumable = set(resumable)
        self.monitor = monitor
        self.snames = {}
        self.anon = collections.OrderedDict()   # key -> cname for literal structs
        self.out = []
        self.externs_used = collections.OrderedDict()
        self.untranslated = {}
        self.emitted_funcs = []
        self.emitted_globals = []
        self.extern_globals = []
        self.adhoc_by_size = {}
        self.frame_defs = []
        self.auto_resumable = False
        self.exceptions = False
        self.used_ti = set()
        self.nounwind = set()
        self.shared_yield = False
        self.yield_calls = set()
        self.yield_after = set()
        self.yield_twophase = set()

    # ---- names
    def sname(self, t):
        t0 = t
        if t.name is not None:
            k = t.name
            if k not in self.snames:
                base = 'S_' + san(k)
                while base in self.snames.values():
                    base += '_'
                self.snames[k] = base
            return self.snames[k]
        k = t.key()
        if k not in self.anon:
            self.anon[k] = (t, 'SA_%d' % len(self.anon))
        return self.anon[k][1]

    def fname(self, name):
        if name in self.replace:
            return self.replace[name]
        if name in self.m.funcs and name not in self.untranslated:
            return self.pfx + san(name)
        return 'X_' + san(name)

    def gname(self, name):
        g = self.m.globals.get(name)
        if g is not None and g['init'] is not None:
            return self.pfx + 'G_' + san(name)
        return 'X_G_' + san(name)

    # ---- C types
    def ct(self, t):
        t = self.m.resolve(t)
        k = t.k
        if k == 'int':
            if t.bits <= 8:
                return 'u8'
            if t.bits <= 16:
                return 'u16'
            if t.bits <= 32:
                return 'u32'
            if t.bits <= 64:
                return 'u64'
            raise NotImplementedError('int width %d' % t.bits)
        if k == 'ptr':
            return 'u8*'
        if k in ('double', 'float'):
            return k
        if k == 'struct':
            return 'struct ' + self.sname(t)
        if k == 'arr':
            # wrap arrays used as first-class values
            return 'struct ' + self.sname(Ty('struct', fields=[t]))
        if k == 'void':
            return 'void'
        raise NotImplementedError('ctype of %r' % t)

    def sct(self, t):
        return {'u8': 'i8', 'u16': 'i16', 'u32': 'i32', 'u64': 'i64'}[self.ct(t)]

    def decl(self, t, name):
        """C declaration of a member / variable of IR type t"""
        t = self.m.resolve(t)
        if t.k == 'arr':
            dims = ''
            while t.k == 'arr':
                dims += '[%d]' % max(t.n, 0)
                t = self.m.resolve(t.elem)
            return '%s %s%s' % (self.ct(t), name, dims)
        return '%s %s' % (self.ct(t), name)

    # ---- struct definitions
    def emit_structs(self, used):
        done = set()
        order = []

        def visit(t):
            t = self.m.resolve(t)
            if t.k == 'arr':
                visit(t.elem)
                return
            if t.k != 'struct':
                return
            key = t.name if t.name is not None else t.key()
            if key in done:
                return
            done.add(key)
            if t.fields is None:
                order.append(t)
                return
            for f in t.fields:
                visit(f)
            order.append(t)
        for t in used:
            visit(t)
        L = []
        for t in order:
            nm = self.sname(t)
            if t.fields is None:
                L.append('struct %s { u8 opaque_; };' % nm)
                continue
            fs = []
            for i, f in enumerate(t.fields):
                fr = self.m.resolve(f)
                if fr.k == 'arr' and fr.n == 0:
                    continue
                if fr.k == 'struct' and fr.fields is not None and len(fr.fields) == 0:
                    continue
                fs.append('  %s;' % self.decl(f, 'f%d' % i))
            if not fs:
                fs = ['  u8 empty_;'] if self.m.size(t) else []
            at = ' __attribute__((packed))' if t.packed else ''
            if not fs:
                L.append('struct %s { u8 empty_; };' % nm)
                continue
            L.append('struct %s {\n%s\n}%s;' % (nm, '\n'.join(fs), at))
            try:
                sz = self.m.size(t)
                if sz:
                    L.append('_Static_assert(sizeof(struct %s)==%d, "layout %s");' % (nm, sz, nm))
            except ValueError:
                pass
        return L

    # ---- constants / operands
    def intlit(self, t, v):
        bits = t.bits if t.k == 'int' else 64
        v &= (1 << bits) - 1
        if bits > 32:
            return '((u64)%dULL)' % v
        return '((%s)%dU)' % (self.ct(t), v)

    def cv(self, t, v, ctx=None):
        """C expression for operand v of IR type t"""
        k = v[0]
        t = self.m.resolve(t)
        if k == 'local':
            return self.local(v[1], ctx)
        if k == 'global':
            n = v[1]
            if n in self.m.funcs or n in self.m.decls or n in self.replace:
                self.note_ext(n)
                if n in self.resumable and n not in self.replace:
                    return '((u8*)&%s_addr)' % self.fname(n)
                return '((u8*)&%s)' % self.fname(n)
            g = self.m.globals.get(n)
            if g is not None and g.get('alias') is not None:
                return self.cv(t, g['alias'], ctx)
            if self.exceptions and n.startswith('_ZTI'):
                self.used_ti.add(n)
                return '((u8*)&%s)' % self.gname(n)
            if n.startswith('_ZTI') or n.startswith('_ZTS') or n.startswith('_ZTVN10__cxxabiv'):
                return '((u8*)0)'
            self.used_globals.add(n)
            return '((u8*)&%s)' % self.gname(n)
        if k == 'int':
            if t.k == 'ptr':
                return '((u8*)%dULL)' % v[1]
            return self.intlit(t, v[1])
        if k == 'null':
            return '((u8*)0)'
        if k in ('undef', 'zero'):
            if t.k in ('int',):
                return self.intlit(t, 0)
            if t.k == 'ptr':
                return '((u8*)0)'
            if t.k in ('double', 'float'):
                return '0.0'
            return '((%s){0})' % self.ct(t)
        if k == 'float':
            s = v[1]
            if s.startswith('0x'):
                import struct
                return repr(struct.unpack('>d', bytes.fromhex(s[2:].rjust(16, '0')))[0])
            return s
        if k == 'gep':
            return self.gep_expr(v[1], v[2], ctx)
        if k == 'cast':
            return self.cast_expr(v[1], v[2][0], v[2][1], v[3], ctx)
        if k == 'binop':
            return self.binop_expr(v[1], v[2][0], v[2][1], v[3][1], ctx)
        if k == 'icmpc':
            return self.icmp_expr(v[1], v[2][0], v[2][1], v[3][1], ctx)
        if k == 'selectc':
            (ct_, c), (at, a), (bt, b) = v[1]
            return '(%s ? %s : %s)' % (self.cv(ct_, c, ctx), self.cv(at, a, ctx), self.cv(bt, b, ctx))
        if k in ('structv', 'array', 'cstr'):
            return '((%s)%s)' % (self.ct(t), self.init(t, v))
        raise NotImplementedError('operand %r' % (v,))

    def local(self, n, ctx):
        return (ctx.lp if ctx else '') + 'v_' + san(n)

    def note_ext(self, n):
        if n not in self.m.funcs and n not in self.replace:
            self.externs_used[n] = True
        if n in self.replace:
            self.externs_used[n] = True

    def init(self, t, v):
        """C initializer (brace form) for constant v of type t"""
        t = self.m.resolve(t)
        k = v[0]
        if k == 'zero' or k == 'undef':
            if t.k in ('struct', 'arr'):
                return '{0}'
            return self.cv(t, v)
        if k == 'cstr':
            return '{' + ','.join(str(b) for b in v[1]) + '}'
        if k == 'array':
            if t.k == 'struct':     # wrapped
                return '{' + self.init(t.fields[0], v) + '}'
            return '{' + ','.join(self.init(et, ev) for et, ev in v[1]) + '}'
        if k == 'structv':
            parts = []
            for (et, ev) in v[1]:
                er = self.m.resolve(et)
                if er.k == 'arr' and er.n == 0:
                    continue
                parts.append(self.init(et, ev))
            return '{' + ','.join(parts) + '}'
        return self.cv(t, v)

    # ---- expression helpers
    def gep_path(self, srcty, base_c, ops, ctx):
        """returns C lvalue expression string"""
        (t0, i0) = ops[0]
        cur = self.m.resolve(srcty)
        e = '((%s*)%s)[%s]' % (self.cbase(cur), base_c, self.idx(t0, i0, ctx))
        # arrays as base element: ((elem (*)[n]) p)[i] -- handle via cbase returning typedef'd array
        for (t, i) in ops[1:]:
            cur = self.m.resolve(cur)
            if cur.k == 'struct':
                assert i[0] == 'int', 'struct index must be constant'
                e += '.f%d' % i[1]
                cur = cur.fields[i[1]]
            elif cur.k == 'arr':
                e += '[%s]' % self.idx(t, i, ctx)
                cur = cur.elem
            else:
                raise NotImplementedError('gep into %r' % cur)
        return e, cur

    def cbase(self, t):
        t = self.m.resolve(t)
        if t.k == 'arr':
            # pointer to array: use a typedef
            key = 'A_' + san(t.key())
            if key not in self.arr_typedefs:
                self.arr_typedefs[key] = 'typedef %s;' % self.decl(t, key)
                self.used_types.append(t)
            return key
        if t.k == 'struct':
            self.used_types.append(t)
        if t.k == 'func':
            return 'u8'
        return self.ct(t)

    def idx(self, t, v, ctx):
        if v[0] == 'int':
            return str(v[1])
        c = self.cv(t, v, ctx)
        t = self.m.resolve(t)
        return '(i64)(%s)%s' % (self.sct(t), c)

    def gep_expr(self, srcty, ops, ctx):
        (pt, pv) = ops[0]
        base = self.cv(pt, pv, ctx)
        rest = ops[1:]
        # negative constant index (array cookies, container_of): LLVM only materialises the FINAL address; a typed C path would
        # form an intermediate out-of-object pointer, so emit the statically computed byte offset instead
        if all(i[0] == 'int' for _, i in rest) and any(i[1] < 0 for _, i in rest):
            off = 0
            cur = self.m.resolve(srcty)
            off += rest[0][1][1] * self.m.size(cur)
            for (t, i) in rest[1:]:
                cur = self.m.resolve(cur)
                if cur.k == 'struct':
                    off += self.m.field_offset(cur, i[1])
                    cur = cur.fields[i[1]]
                elif cur.k == 'arr':
                    off += i[1] * self.m.size(cur.elem)
                    cur = cur.elem
            return '((u8*)%s + (%d))' % (base, off)
        # special case: all-zero trailing indices into struct with dropped zero-size fields
        try:
            e, _ = self.gep_path(srcty, base, rest, ctx)
        except (AssertionError,):
            raise
        return '((u8*)&%s)' % e

    def cast_expr(self, op, t, v, to, ctx):
        t = self.m.resolve(t)
        to = self.m.resolve(to)
        x = self.cv(t, v, ctx)
        if op in ('bitcast', 'addrspacecast'):
            if t.k == 'ptr' and to.k == 'ptr':
                return x
            if t.k == to.k == 'int':
                return x
            if t.k in ('double', 'float') or to.k in ('double', 'float'):
                raise NotImplementedError('fp bitcast')
            return x
        if op == 'ptrtoint':
            return '((%s)(u64)%s)' % (self.ct(to), x)
        if op == 'inttoptr':
            return '((u8*)(u64)%s)' % x
        if op == 'trunc':
            if to.bits == 1:
                return '((u8)(%s & 1))' % x
            m = self.mask(to)
            return '((%s)(%s%s))' % (self.ct(to), x, m)
        if op == 'zext':
            return '((%s)%s)' % (self.ct(to), x)
        if op == 'sext':
            if t.bits == 1:
                return '((%s)(0 - (%s)%s))' % (self.ct(to), self.ct(to), x)
            r_ = '((%s)(%s)(%s)%s)' % (self.ct(to), self.sct(to), self.sct(t), self.sx(t, x))
            return r_ if not self.odd(to) else '((%s)(%s & %dULL))' % (self.ct(to), r_, (1 << to.bits) - 1)
        if op in ('uitofp',):
            return '((%s)%s)' % (self.ct(to), x)
        if op == 'sitofp':
            return '((%s)(%s)%s)' % (self.ct(to), self.sct(t), x)
        if op == 'fptoui':
            return '((%s)%s)' % (self.ct(to), x)
        if op == 'fptosi':
            return '((%s)(%s)%s)' % (self.ct(to), self.sct(to), x)
        if op in ('fpext', 'fptrunc'):
            return '((%s)%s)' % (self.ct(to), x)
        raise NotImplementedError(op)

    def mask(self, t):
        if t.k == 'int' and t.bits not in (8, 16, 32, 64):
            return ' & %dU' % ((1 << t.bits) - 1)
        return ''

    def odd(self, t):
        t = self.m.resolve(t)
        return t.k == 'int' and t.bits not in (1, 8, 16, 32, 64)

    def sx(self, t, x):
        """value of odd-width int x sign-extended into its C container"""
        t = self.m.resolve(t)
        if self.odd(t):
            c = 64 if t.bits > 32 else 32
            return '((u%d)(((i%d)((u%d)%s << %d)) >> %d))' % (c, c, c, x, c - t.bits, c - t.bits)
        return x

    def binop_expr(self, op, t, a, b, ctx):
        t = self.m.resolve(t)
        A = self.cv(t, a, ctx)
        B = self.cv(t, b, ctx)
        if t.k in ('double', 'float'):
            o = {'fadd': '+', 'fsub': '-', 'fmul': '*', 'fdiv': '/'}[op]
            return '(%s %s %s)' % (A, o, B)
        C = self.ct(t)
        S = self.sct(t)
        wide = 'u64' if t.bits > 32 else 'u32'
        if t.bits == 1:
            o = {'and': '&', 'or': '|', 'xor': '^', 'add': '^', 'sub': '^', 'mul': '&'}[op]
            return '((u8)((%s %s %s) & 1))' % (A, o, B)
        if self.odd(t):
            M = ' & %dULL' % ((1 << t.bits) - 1)
            if op in ('add', 'sub', 'mul', 'and', 'or', 'xor', 'shl'):
                o = {'add': '+', 'sub': '-', 'mul': '*', 'and': '&', 'or': '|', 'xor': '^', 'shl': '<<'}[op]
                return '((%s)(((%s)%s %s (%s)%s)%s))' % (C, wide, A, o, wide, B, M)
            if op in ('udiv', 'urem', 'lshr'):
                o = {'udiv': '/', 'urem': '%', 'lshr': '>>'}[op]
                return '((%s)(%s %s %s))' % (C, A, o, B)
            if op in ('sdiv', 'srem', 'ashr'):
                o = {'sdiv': '/', 'srem': '%', 'ashr': '>>'}[op]
                SA, SB = self.sx(t, A), (self.sx(t, B) if op != 'ashr' else B)
                return '((%s)(((%s)%s %s (%s)%s)%s))' % (C, S, SA, o, S, SB, M)
        if op in ('add', 'sub', 'mul', 'and', 'or', 'xor'):
            o = {'add': '+', 'sub': '-', 'mul': '*', 'and': '&', 'or': '|', 'xor': '^'}[op]
            return '((%s)((%s)%s %s (%s)%s))' % (C, wide, A, o, wide, B)
        if op in ('udiv', 'urem'):
            o = '/' if op == 'udiv' else '%'
            return '((%s)(%s %s %s))' % (C, A, o, B)
        if op in ('sdiv', 'srem'):
            o = '/' if op == 'sdiv' else '%'
            return '((%s)((%s)%s %s (%s)%s))' % (C, S, A, o, S, B)
        if op == 'shl':
            return '((%s)((%s)%s << %s))' % (C, wide, A, B)
        if op == 'lshr':
            return '((%s)(%s >> %s))' % (C, A, B)
        if op == 'ashr':
            return '((%s)((%s)%s >> %s))' % (C, S, A, B)
        raise NotImplementedError(op)

    def icmp_expr(self, pred, t, a, b, ctx):
        t = self.m.resolve(t)
        A = self.cv(t, a, ctx)
        B = self.cv(t, b, ctx)
        o = {'eq': '==', 'ne': '!=', 'ugt': '>', 'uge': '>=', 'ult': '<', 'ule': '<=',
             'sgt': '>', 'sge': '>=', 'slt': '<', 'sle': '<='}[pred]
        if pred[0] == 's' and t.k == 'int':
            S = self.sct(t)
            return '((u8)((%s)%s %s (%s)%s))' % (S, self.sx(t, A), o, S, self.sx(t, B))
        if t.k == 'ptr' and pred not in ('eq', 'ne'):
            return '((u8)((u64)%s %s (u64)%s))' % (A, o, B)
        return '((u8)(%s %s %s))' % (A, o, B)

    # ---- functions
    def proto(self, name, ret, params, vararg):
        ps = [self.ct(t) for t in params]
        if vararg:
            ps.append('...')
        return '%s %s(%s)' % (self.ct(ret), name, ', '.join(ps) if ps else 'void')

    def reach(self, roots):
        seenf, seeng = set(), set()
        work = list(roots)

        def refs_val(v, acc):
            if not isinstance(v, tuple):
                return
            if v and v[0] == 'global':
                acc.append(v[1])
                return
            for x in v:
                if isinstance(x, tuple):
                    refs_val(x, acc)
                elif isinstance(x, list):
                    for y in x:
                        refs_val(y, acc)

        def refs_instr(I, acc):
            for k, x in I.items():
                if isinstance(x, tuple):
                    refs_val(x, acc)
                elif isinstance(x, list):
                    for y in x:
                        refs_val(y, acc) if isinstance(y, tuple) else None
        while work:
            n = work.pop()
            if n in self.replace:
                continue
            if n in self.m.funcs:
                if n in seenf:
                    continue
                seenf.add(n)
                acc = []
                for b in self.m.funcs[n].blocks.values():
                    for I in b:
                        refs_instr(I, acc)
                work.extend(acc)
            elif n in self.m.globals:
                if n in seeng:
                    continue
                seeng.add(n)
                g = self.m.globals[n]
                acc = []
                if g['init'] is not None and not (n.startswith('_ZTI') or n.startswith('_ZTS')):
                    refs_val(g['init'], acc)
                if g.get('alias') is not None:
                    refs_val(g['alias'], acc)
                work.extend(acc)
        return seenf, seeng

    def emit_module(self, roots):
        self.arr_typedefs = collections.OrderedDict()
        self.used_types = []
        self.used_globals = set()
        fs, gs = self.reach(roots)
        self.reach_fs, self.reach_gs = set(fs), set(gs)
        fs = [n for n in self.m.funcs if n in fs]
        if self.auto_resumable:
            self.resumable = self.compute_resumable(fs)
        bodies = []
        for n in fs:      # dry run: find functions the translator cannot handle
            try:
                if n in self.resumable:
                    self.emit_resumable(self.m.funcs[n])
                else:
                    self.emit_function(self.m.funcs[n])
            except NotImplementedError as e:
                self.untranslated[n] = str(e)
        self.emitted_funcs = []
        self.frame_defs = []
        for n in fs:
            if n in self.untranslated:
                continue
            f = self.m.funcs[n]
            try:
                if n in self.resumable:
                    bodies.append(self.emit_resumable(f))
                else:
                    bodies.append(self.emit_function(f))
                self.emitted_funcs.append(n)
            except NotImplementedError as e:
                self.untranslated[n] = str(e)
        # untranslated functions become externals
        # globals
        gl = []
        gdecl = []
        for n in self.m.globals:
            if n not in gs and n not in self.used_globals:
                continue
            if n.startswith('llvm.') or n.startswith('_ZTI') or n.startswith('_ZTS') or n.startswith('_ZTVN10__cxxabiv'):
                continue
            g = self.m.globals[n]
            if g.get('alias') is not None:
                continue
            t = g['ty']
            self.used_types.append(t)
            cn = self.gname(n)
            if g['init'] is None:
                # external object (std::cout, stdout, ...): a zero-initialised stand-in of the IR type; nothing in scope reads its contents
                gdecl.append('%s;' % self.decl(t, cn))
                self.extern_globals.append(n)
            else:
                gdecl.append('extern %s;' % self.decl(t, cn))
                try:
                    gl.append('%s = %s;' % (self.decl(t, cn), self.ginit(t, g['init'])))
                    self.emitted_globals.append(n)
                except NotImplementedError as e:
                    self.untranslated['@' + n] = str(e)
        # prototypes
        protos = []
        frames = []
        for n in fs:
            f = self.m.funcs[n]
            if n in self.untranslated:
                self.externs_used[n] = True
                continue
            if n in self.resumable:
                cn = self.fname(n)
                protos.append('void %s_init(int%s);' % (cn, ''.join(', ' + self.ct(t) for t, _ in f.params)))
                protos.append('int %s_step(int);' % cn)
                protos.append('int %s_enabled(int);' % cn)
                frames.append(n)
                continue
            protos.append(self.proto(self.fname(n), f.ret, [t for t, _ in f.params], f.vararg) + ';')
        for n in self.externs_used:
            if n in self.m.funcs and n not in self.replace and n not in self.untranslated:
                continue
            cn = self.fname(n) if n not in self.untranslated else 'X_' + san(n)
            if n in self.m.funcs:
                f = self.m.funcs[n]
                protos.append(self.proto(cn, f.ret, [t for t, _ in f.params], f.vararg) + ';')
            elif n in self.m.decls:
                d = self.m.decls[n]
                protos.append(self.proto(cn, d.ret, d.params, d.vararg) + ';')
        for p in protos:
            pass
        hdr = ['/* generated by ir2c.py - do not edit */',
               '#include "ir2c_rt.h"']
        if self.resumable:
            hdr.append('#include "env_sched.h"   /* semantics of the visible operations (RS_* / RS_ENABLED_*) */')
        st = self.emit_structs(self.used_types + [t for (t, _) in self.anon.values()])
        # anon structs may have been added during emission of structs: iterate to fixpoint
        st = self.emit_structs(self.used_types + [t for (t, _) in self.anon.values()])
        if self.exceptions:
            # typeinfo objects are identity tags: those of classes defined in this module are defined here, the std:: ones in env/env_exc.c
            for n in sorted(self.used_ti):
                g = self.m.globals.get(n)
                gdecl.append(('u8* %s;' if (g is not None and g['init'] is not None) else 'extern u8* %s;') % self.gname(n))
        raddr = ['u8 %s_addr; /* identity of a step function whose address is taken */' % self.fname(n) for n in fs if n in self.resumable]
        out = hdr + st + list(self.arr_typedefs.values()) + protos + raddr + gdecl + self.frame_defs + gl + bodies
        if True:
            cl = [c for c in self.m.ctors if c in fs and c not in self.untranslated]
            out.append('void %sglobal_ctors(void) {\n%s\n}' % (self.pfx, '\n'.join('  %s();' % self.fname(c) for c in cl)))
        return '\n'.join(out) + '\n'

    def ginit(self, t, v):
        t = self.m.resolve(t)
        if t.k in ('struct', 'arr'):
            return self.init(t, v)
        return self.cv(t, v)

    # ---- per function
    class Ctx:
        def __init__(self):
            self.lp = ''
            self.decls = collections.OrderedDict()
            self.allocas = []

    def emit_function(self, f):
        ctx = Emitter.Ctx()
        mon_save = self.monitor
        if f.name.startswith('vf_'):
            self.monitor = False          # shim accessors (used by the monitor itself) are not part of the code under test
        try:
            return self._emit_function(f, ctx)
        finally:
            self.monitor = mon_save

    def _emit_function(self, f, ctx):
        body = self.emit_body(f, ctx)
        ps = ', '.join('%s %s' % (self.ct(t), self.local(n, ctx)) for t, n in f.params)
        if f.vararg:
            ps += ', ...'
        L = ['%s %s(%s) {' % (self.ct(f.ret), self.fname(f.name), ps or 'void')]
        for n, d in ctx.decls.items():
            L.append('  %s;' % d)
        L.extend(body)
        L.append('}')
        return '\n'.join(L)

    def emit_body(self, f, ctx, yield_cb=None):
        L = []
        params = set(n for _, n in f.params)
        # collect phi info
        phis = {}
        for lab, b in f.blocks.items():
            phis[lab] = [I for I in b if I['op'] == 'phi']

        def declare(I, t):
            if I['res'] is None:
                return None
            n = self.local(I['res'], None)
            ctx.decls[n] = self.decl_local(t, n)
            return self.local(I['res'], ctx)

        def phi_moves(src, dst):
            ps = phis.get(dst, [])
            if not ps:
                return ''
            s = ''
            if len(ps) == 1:
                I = ps[0]
                v = [x for x, l in I['inc'] if l == src]
                if not v:
                    raise NotImplementedError('phi without incoming for %s->%s' % (src, dst))
                return '%s = %s; ' % (self.local(I['res'], ctx), self.cv(I['ty'], v[0], ctx))
            for I in ps:
                v = [x for x, l in I['inc'] if l == src]
                if not v:
                    raise NotImplementedError('phi without incoming')
                tn = 'p_' + self.local(I['res'], None)
                ctx.decls[tn] = self.decl_local(I['ty'], tn)
                s += '%s%s = %s; ' % (ctx.lp, tn, self.cv(I['ty'], v[0], ctx))
            for I in ps:
                tn = 'p_' + self.local(I['res'], None)
                s += '%s = %s%s; ' % (self.local(I['res'], ctx), ctx.lp, tn)
            return s

        def goto(src, dst):
            return '%sgoto L_%s;' % (phi_moves(src, dst), san(dst))

        if self.m.resolve(f.ret).k == 'void':
            exc_return = 'return;'
        else:
            exc_return = '{ %s; memset(&ir2c_z_, 0, sizeof ir2c_z_); return ir2c_z_; }' % self.decl(f.ret, 'ir2c_z_')

        # operator new(const): allocate a TYPED object so that CBMC keeps it field-sensitive.
        #  (a) result bitcast to a struct pointer of exactly that size -> that struct
        #  (b) otherwise infer an ad-hoc struct from the typed stores at constant offsets that initialise it (std::function functors)
        #  (c) otherwise (memcpy-initialised clone) reuse the ad-hoc struct inferred for the same size elsewhere in the module
        defs = {}
        for bb in f.blocks.values():
            for I2 in bb:
                if I2.get('res') is not None:
                    defs[I2['res']] = I2
        ctx.defs = defs
        for lab, b in f.blocks.items():
            for I in b:
                if I['op'] == 'call' and I['callee'][0] == 'global' and I['callee'][1] in ('_Znwm', '_Znam') and I['res'] is not None \
                        and len(I['args']) == 1 and I['args'][0][1][0] == 'int' and I.get('typed_new') is None:
                    N = I['args'][0][1][1]
                    r0 = I['res']
                    for bb in f.blocks.values():
                        for I2 in bb:
                            if I2['op'] == 'cast' and I2['cast'] == 'bitcast' and I2['a'] == ('local', r0):
                                to = self.m.resolve(I2['to'])
                                if to.k == 'ptr':
                                    el = self.m.resolve(to.elem)
                                    try:
                                        if el.k == 'struct' and el.fields is not None and self.m.size(el) == N and I.get('typed_new') is None:
                                            I['typed_new'] = el
                                    except ValueError:
                                        pass
                    if I.get('typed_new') is None and I['callee'][1] == '_Znwm' and N <= 256:
                        # (b) offsets of derived pointers
                        off = {r0: 0}
                        changed = True
                        while changed:
                            changed = False
                            for n2, I2 in defs.items():
                                if n2 in off:
                                    continue
                                if I2['op'] == 'cast' and I2['cast'] == 'bitcast' and I2['a'][0] == 'local' and I2['a'][1] in off:
                                    off[n2] = off[I2['a'][1]]
                                    changed = True
                                elif I2['op'] == 'getelementptr' and I2['ops'][0][1][0] == 'local' and I2['ops'][0][1][1] in off \
                                        and self.m.resolve(I2['srcty']).k == 'int' and self.m.resolve(I2['srcty']).bits == 8 and len(I2['ops']) == 2 and I2['ops'][1][1][0] == 'int':
                                    off[n2] = off[I2['ops'][0][1][1]] + I2['ops'][1][1][1]
                                    changed = True
                        lay = {}
                        for bb in f.blocks.values():
                            for I2 in bb:
                                if I2['op'] == 'store' and I2['p'][0] == 'local' and I2['p'][1] in off:
                                    t2 = self.m.resolve(I2['ty'])
                                    if t2.k in ('int', 'ptr'):
                                        lay[off[I2['p'][1]]] = t2
                        if lay:
                            fields, pos, ok = [], 0, True
                            for o in sorted(lay):
                                if o < pos:
                                    ok = False
                                    break
                                if o > pos:
                                    fields.append(Ty('arr', n=o - pos, elem=I8))
                                fields.append(lay[o])
                                pos = o + self.m.size(lay[o])
                            if ok and pos <= N:
                                if pos < N:
                                    fields.append(Ty('arr', n=N - pos, elem=I8))
                                st = Ty('struct', fields=fields, packed=True)
                                I['typed_new'] = st
                                self.adhoc_by_size.setdefault(N, st)
                    if I.get('typed_new') is None and I['callee'][1] == '_Znwm':
                        I['typed_new_size'] = N
        # blocks reachable through normal control flow only: landing pads (exception unwinding) are not translated - a throw is a
        # reported failure of the environment model (std::terminate in the real build when nothing catches), see env_cxx.c
        normal = set()
        work = [f.entry]
        while work:
            lb = work.pop()
            if lb in normal or lb not in f.blocks:
                continue
            normal.add(lb)
            for I in f.blocks[lb]:
                if I['op'] == 'br':
                    work.extend([I['dest']] if 'dest' in I else [I['t'], I['f']])
                elif I['op'] == 'switch':
                    work.extend([d for _, d in I['cases']] + [I['default']])
                elif I['op'] == 'invoke':
                    work.append(I['normal'])
                    if self.exceptions:
                        work.append(I['unwind'])
        for lab, b in f.blocks.items():
            if lab not in normal:
                continue
            L.append('L_%s: ;' % san(lab))
            for I in b:
                op = I['op']
                if op == 'phi':
                    declare(I, I['ty'])
                    continue
                if op in BINOPS:
                    r = declare(I, I['ty'])
                    L.append('  %s = %s;' % (r, self.binop_expr(op, I['ty'], I['a'], I['b'], ctx)))
                elif op == 'fneg':
                    r = declare(I, I['ty'])
                    L.append('  %s = -%s;' % (r, self.cv(I['ty'], I['a'], ctx)))
                elif op == 'icmp':
                    r = declare(I, I1)
                    L.append('  %s = %s;' % (r, self.icmp_expr(I['pred'], I['ty'], I['a'], I['b'], ctx)))
                elif op == 'fcmp':
                    r = declare(I, I1)
                    o = {'oeq': '==', 'one': '!=', 'ogt': '>', 'oge': '>=', 'olt': '<', 'ole': '<=',
                         'ueq': '==', 'une': '!=', 'ugt': '>', 'uge': '>=', 'ult': '<', 'ule': '<='}[I['pred']]
                    L.append('  %s = (u8)(%s %s %s);' % (r, self.cv(I['ty'], I['a'], ctx), o, self.cv(I['ty'], I['b'], ctx)))
                elif op == 'cast':
                    r = declare(I, I['to'])
                    L.append('  %s = %s;' % (r, self.cast_expr(I['cast'], I['ty'], I['a'], I['to'], ctx)))
                elif op == 'select':
                    r = declare(I, I['a'][0])
                    L.append('  %s = %s ? %s : %s;' % (r, self.cv(*I['c'], ctx), self.cv(*I['a'], ctx), self.cv(*I['b'], ctx)))
                elif op == 'load':
                    r = declare(I, I['ty'])
                    pe = self.cv(PTR8, I['p'], ctx)
                    if self.shared_yield and yield_cb and self.is_shared_access(I, ctx):
                        L.extend(yield_cb('shared'))
                    if self.monitor and not self.is_local_ptr(I['p'], ctx):
                        L.append('  IR2C_ACCESS(%s, %d, 0);' % (pe, self.m.size(I['ty'])))
                    if self.odd(I['ty']):
                        nb = (self.m.resolve(I['ty']).bits + 7) // 8
                        L.append('  %s = (%s)(%s)%s;' % (r, self.ct(I['ty']), ' | '.join('((u64)((u8*)%s)[%d] << %d)' % (pe, i, 8 * i) for i in range(nb)),
                                                     ' & %dULL' % ((1 << self.m.resolve(I['ty']).bits) - 1)))
                    else:
                        L.append('  %s = *(%s*)%s;' % (r, self.cbase(I['ty']), pe))
                elif op == 'store':
                    pe = self.cv(PTR8, I['p'], ctx)
                    if self.shared_yield and yield_cb and self.is_shared_access(I, ctx):
                        L.extend(yield_cb('shared'))
                    if self.monitor and not self.is_local_ptr(I['p'], ctx):
                        L.append('  IR2C_ACCESS(%s, %d, 1);' % (pe, self.m.size(I['ty'])))
                    if self.odd(I['ty']):
                        nb = (self.m.resolve(I['ty']).bits + 7) // 8
                        vv = self.cv(I['ty'], I['v'], ctx)
                        for i in range(nb):
                            L.append('  ((u8*)%s)[%d] = (u8)((u64)%s >> %d);' % (pe, i, vv, 8 * i))
                    else:
                        L.append('  *(%s*)%s = %s;' % (self.cbase(I['ty']), pe, self.cv(I['ty'], I['v'], ctx)))
                elif op == 'alloca':
                    r = declare(I, PTR8)
                    sn = 'a_' + self.local(I['res'], None)
                    t = I['ty']
                    self.used_types.append(t)
                    if I['n'] is not None and not (I['n'][1][0] == 'int' and I['n'][1][1] == 1):
                        if I['n'][1][0] != 'int':
                            raise NotImplementedError('dynamic alloca')
                        t = Ty('arr', n=I['n'][1][1], elem=t)
                    ctx.decls[sn] = self.decl(t, sn)
                    L.append('  %s = (u8*)&%s%s;' % (r, ctx.lp, sn))
                elif op == 'getelementptr':
                    r = declare(I, PTR8)
                    L.append('  %s = %s;' % (r, self.gep_expr(I['srcty'], I['ops'], ctx)))
                elif op in ('call', 'invoke'):
                    L.extend(self.emit_call(I, ctx, declare, yield_cb))
                    if self.exceptions and self.may_throw(I):
                        if op == 'invoke':
                            L.append('  if (ir2c_exc) { %s }' % goto(lab, I['unwind']))
                        else:
                            L.append('  if (ir2c_exc) { %s }' % exc_return)
                    if op == 'invoke':
                        L.append('  ' + goto(lab, I['normal']))
                elif op == 'br':
                    if 'dest' in I:
                        L.append('  ' + goto(lab, I['dest']))
                    else:
                        L.append('  if (%s) { %s } else { %s }' % (self.cv(*I['c'], ctx), goto(lab, I['t']), goto(lab, I['f'])))
                elif op == 'switch':
                    t, v = I['v']
                    L.append('  switch (%s) {' % self.cv(t, v, ctx))
                    for cval, dst in I['cases']:
                        L.append('    case %s: %s' % (self.cv(t, cval, ctx), goto(lab, dst)))
                    L.append('    default: %s' % goto(lab, I['default']))
                    L.append('  }')
                elif op == 'ret':
                    if yield_cb:
                        L.extend(yield_cb('ret', self.cv(I['ty'], I['v'], ctx) if I['v'] is not None else None))
                    elif I['v'] is None:
                        L.append('  return;')
                    else:
                        L.append('  return %s;' % self.cv(I['ty'], I['v'], ctx))
                elif op == 'unreachable':
                    L.append('  IR2C_UNREACHABLE();')
                elif op == 'extractvalue':
                    t, v = I['a']
                    e, et = self.agg_path(t, self.cv(t, v, ctx), I['idx'])
                    r = declare(I, et)
                    L.append('  %s = %s;' % (r, e))
                elif op == 'insertvalue':
                    t, v = I['a']
                    r = declare(I, t)
                    L.append('  %s = %s;' % (r, self.cv(t, v, ctx)))
                    e, et = self.agg_path(t, r, I['idx'])
                    L.append('  %s = %s;' % (e, self.cv(*I['e'], ctx)))
                elif op in ('landingpad', 'resume') and self.exceptions:
                    ctx.decls['ir2c_lp_exc'] = 'u8* ir2c_lp_exc'
                    ctx.decls['ir2c_lp_obj'] = 'u8* ir2c_lp_obj'
                    if op == 'landingpad':
                        # the exception in flight is parked in this frame (cleanup code calls functions); the selector is that of the
                        # first matching catch clause (0: none -> the generated dispatch code falls through to resume)
                        L.append('  ir2c_lp_exc = ir2c_exc; ir2c_lp_obj = ir2c_exc_obj; ir2c_last_exc = ir2c_exc; ir2c_last_obj = ir2c_exc_obj; ir2c_exc = 0;')
                        if I['res'] is not None:
                            r = declare(I, I['ty'])
                            e0, _ = self.agg_path(I['ty'], r, [0])
                            e1, _ = self.agg_path(I['ty'], r, [1])
                            L.append('  %s = ir2c_lp_obj; %s = 0;' % (e0, e1))
                            for cn in I['clauses']:
                                if cn is None:
                                    L.append('  if (%s == 0) %s = 1;' % (e1, e1))
                                else:
                                    self.used_ti.add(cn)
                                    L.append('  if (%s == 0 && ir2c_exc_match(ir2c_lp_exc, (u8*)&%s)) %s = ir2c_typeid((u8*)&%s);' % (e1, self.gname(cn), e1, self.gname(cn)))
                    else:
                        L.append('  ir2c_exc = ir2c_lp_exc; ir2c_exc_obj = ir2c_lp_obj; %s' % exc_return)
                elif op in ('landingpad', 'resume'):
                    L.append('  IR2C_UNREACHABLE(); /* %s */' % op)
                    if op == 'landingpad' and I['res'] is not None:
                        raise NotImplementedError('landingpad result used')
                elif op == 'fence':
                    pass
                elif op in ('cmpxchg', 'atomicrmw'):
                    # sequentially consistent atomics: plain operations under the sequentialised execution (each is a visible step)
                    pe = self.cv(PTR8, I['p'], ctx)
                    if self.shared_yield and yield_cb:
                        L.extend(yield_cb('shared'))
                    if self.monitor and not self.is_local_ptr(I['p'], ctx):
                        L.append('  IR2C_ACCESS(%s, %d, 1);' % (pe, self.m.size(I['ty'])))
                    C = self.cbase(I['ty'])
                    if op == 'cmpxchg':
                        rt_ = Ty('struct', fields=[I['ty'], I1])
                        r = declare(I, rt_)
                        L.append('  %s.f0 = *(%s*)%s; %s.f1 = (u8)(%s.f0 == %s); if (%s.f1) *(%s*)%s = %s;' % (r, C, pe, r, r, self.cv(I['ty'], I['cmp'], ctx), r, C, pe, self.cv(I['ty'], I['new'], ctx)))
                    else:
                        r = declare(I, I['ty'])
                        o = {'xchg': None, 'add': '+', 'sub': '-', 'and': '&', 'or': '|', 'xor': '^'}.get(I['rmw'], 'X')
                        if o == 'X':
                            raise NotImplementedError('atomicrmw ' + I['rmw'])
                        v_ = self.cv(I['ty'], I['v'], ctx)
                        L.append('  %s = *(%s*)%s; *(%s*)%s = (%s)(%s);' % (r, C, pe, C, pe, C, v_ if o is None else '%s %s %s' % (r, o, v_)))
                else:
                    raise NotImplementedError(op)
        return L

    def decl_local(self, t, n):
        t = self.m.resolve(t)
        if t.k in ('struct', 'arr'):
            self.used_types.append(t)
        return '%s %s' % (self.ct(t), n)

    def agg_path(self, t, base, idx):
        cur = self.m.resolve(t)
        e = base
        if cur.k == 'arr':
            e += '.f0'
        for i in idx:
            cur = self.m.resolve(cur)
            if cur.k == 'struct':
                e += '.f%d' % i
                cur = cur.fields[i]
            elif cur.k == 'arr':
                e += '[%d]' % i
                cur = cur.elem
        return e, cur

    INTRIN = {
        'llvm.memcpy': 'memcpy', 'llvm.memmove': 'memmove', 'llvm.memset': 'memset',
    }

    def emit_call(self, I, ctx, declare, yield_cb=None):
        callee = I['callee']
        rt = I['rt']
        args = I['args']
        L = []
        r = None
        if callee[0] == 'global':
            n = callee[1]
            if n.startswith('llvm.'):
                base = n
                if base.startswith('llvm.lifetime') or base.startswith('llvm.experimental.noalias') or base.startswith('llvm.dbg') \
                        or base.startswith('llvm.assume') or base.startswith('llvm.invariant') or base in ('llvm.va_end', 'llvm.donothing'):
                    return L
                a = [self.cv(t, v, ctx) for t, v in args]
                if base.startswith('llvm.memcpy') or base.startswith('llvm.memmove') or base.startswith('llvm.memset'):
                    fn = 'memcpy' if 'memcpy' in base else 'memmove' if 'memmove' in base else 'memset'
                    if self.monitor:
                        L.append('  IR2C_ACCESS(%s, %s, 1);' % (a[0], a[2]))
                        if fn != 'memset':
                            L.append('  IR2C_ACCESS(%s, %s, 0);' % (a[1], a[2]))
                    L.append('  %s((void*)%s, %s, %s);' % (fn, a[0], ('(void*)' + a[1]) if fn != 'memset' else a[1], a[2]))
                    return L
                r = declare(I, rt)
                t = self.m.resolve(rt)
                C = self.ct(t) if t.k != 'void' else None
                if base.startswith('llvm.bswap'):
                    L.append('  %s = IR2C_BSWAP%d(%s);' % (r, t.bits, a[0]))
                elif base.startswith('llvm.fshl'):
                    L.append('  %s = IR2C_FSHL%d(%s, %s, %s);' % (r, t.bits, a[0], a[1], a[2]))
                elif base.startswith('llvm.fshr'):
                    L.append('  %s = IR2C_FSHR%d(%s, %s, %s);' % (r, t.bits, a[0], a[1], a[2]))
                elif base.startswith('llvm.umin'):
                    L.append('  %s = %s < %s ? %s : %s;' % (r, a[0], a[1], a[0], a[1]))
                elif base.startswith('llvm.umax'):
                    L.append('  %s = %s > %s ? %s : %s;' % (r, a[0], a[1], a[0], a[1]))
                elif base.startswith('llvm.smin'):
                    S = self.sct(t)
                    L.append('  %s = (%s)%s < (%s)%s ? %s : %s;' % (r, S, a[0], S, a[1], a[0], a[1]))
                elif base.startswith('llvm.smax'):
                    S = self.sct(t)
                    L.append('  %s = (%s)%s > (%s)%s ? %s : %s;' % (r, S, a[0], S, a[1], a[0], a[1]))
                elif base.startswith('llvm.abs'):
                    S = self.sct(t)
                    L.append('  %s = (%s)%s < 0 ? (%s)(0 - %s) : %s;' % (r, S, a[0], C, a[0], a[0]))
                elif base.startswith('llvm.usub.sat'):
                    L.append('  %s = %s > %s ? (%s)(%s - %s) : 0;' % (r, a[0], a[1], C, a[0], a[1]))
                elif base.startswith('llvm.uadd.sat'):
                    L.append('  %s = (%s)(%s + %s) < %s ? (%s)~(%s)0 : (%s)(%s + %s);' % (r, C, a[0], a[1], a[0], C, C, C, a[0], a[1]))
                elif base.startswith('llvm.round') or base.startswith('llvm.fabs') or base.startswith('llvm.floor'):
                    L.append('  %s = %s(%s);' % (r, base.split('.')[1], a[0]))
                elif base.startswith('llvm.ctlz') or base.startswith('llvm.cttz') or base.startswith('llvm.ctpop'):
                    L.append('  %s = IR2C_%s%d(%s);' % (r, base.split('.')[1].upper(), t.bits, a[0]))
                elif base.startswith('llvm.eh.typeid.for'):
                    L.append('  %s = ir2c_typeid(%s);' % (r, a[0]))
                elif base.startswith('llvm.expect'):
                    L.append('  %s = %s;' % (r, a[0]))
                elif base.startswith('llvm.va_start'):
                    raise NotImplementedError('va_start')
                elif base.startswith('llvm.trap'):
                    L.append('  IR2C_TRAP();')
                else:
                    raise NotImplementedError('intrinsic ' + base)
                return L
            if n == '_Znwm' and I.get('typed_new') is None and I.get('typed_new_size') in self.adhoc_by_size:
                I['typed_new'] = self.adhoc_by_size[I['typed_new_size']]
            if n in ('_Znwm', '_Znam') and I.get('typed_new') is not None and n not in self.replace:
                r = declare(I, rt)
                self.used_types.append(I['typed_new'])
                L.append('  %s = (u8*)IR2C_NEW(%s);' % (r, self.ct(I['typed_new'])))
                return L
            self.note_ext(n)
            a = [self.cv(t, v, ctx) for t, v in args]
            if yield_cb:
                y = yield_cb('call', n, a, I, declare)
                if y is not None:
                    return y
            call = '%s(%s)' % (self.fname(n), ', '.join(a))
        else:
            a = [self.cv(t, v, ctx) for t, v in args]
            fty = I['fty']
            if fty is None:
                ps = [self.ct(t) for t, _ in args]
                va = False
            else:
                ps = [self.ct(t) for t in fty.params]
                va = fty.vararg
            if va:
                ps.append('...')
            if yield_cb:
                y = yield_cb('icall', self.cv(PTR8, callee, ctx), a, I, declare)
                if y is not None:
                    return y
            cands = self.icall_candidates(callee, ctx, ps, self.ct(rt), (fty.params[0] if (fty is not None and fty.params) else (args[0][0] if args else None)))
            fpv = self.cv(PTR8, callee, ctx)
            if cands is None:
                call = '((%s(*)(%s))%s)(%s)' % (self.ct(rt), ', '.join(ps) or 'void', fpv, ', '.join(a))
            else:
                has_res = not (self.m.resolve(rt).k == 'void' or I['res'] is None)
                r = declare(I, rt) if has_res else None
                L.append('  { u8* fp_ = %s;' % fpv)
                if self.last_slot is not None and a:
                    L.append('    IR2C_NULLTHIS(%s);' % a[0])
                kw = 'if'
                seen_c = set()
                for cn in cands:
                    if self.fname(cn) in seen_c:
                        continue
                    seen_c.add(self.fname(cn))
                    self.note_ext(cn)
                    L.append('    %s (fp_ == (u8*)&%s) { %s%s(%s); }' % (kw, self.fname(cn), (r + ' = ') if has_res else '', self.fname(cn), ', '.join(a)))
                    kw = 'else if'
                L.append('    %s { IR2C_BADCALL(); }' % ('else' if cands else ''))
                L.append('  }')
                return L
        if self.m.resolve(rt).k == 'void' or I['res'] is None:
            L.append('  %s;' % call)
        else:
            r = declare(I, rt)
            L.append('  %s = %s;' % (r, call))
        return L

    def may_throw(self, I):
        c = I['callee']
        if c[0] != 'global':
            return True
        n = c[1]
        if n.startswith('llvm.') or n in self.nounwind or n in ('_Znwm', '_Znam', '_ZdlPv', '_ZdaPv', 'memcpy', 'memset', 'memmove', 'strlen', 'free', 'malloc'):
            return False
        return True

    def vtables(self):
        if getattr(self, '_vt', None) is None:
            vt = {}
            for n, g in self.m.globals.items():
                if n.startswith('_ZTV') and g['init'] is not None and g['init'][0] == 'structv':
                    for (et, ev) in g['init'][1]:
                        if ev[0] == 'array':
                            ents = []
                            for (pt, pv) in ev[1]:
                                x = pv
                                while x[0] == 'cast':
                                    x = x[2][1]
                                ents.append(x[1] if x[0] == 'global' else None)
                            vt[n] = ents
            self._vt = vt
            # address-taken functions outside vtables
            at = set()

            def scan(v, direct=None):
                if isinstance(v, tuple):
                    if len(v) == 2 and v[0] == 'global' and (v[1] in self.m.funcs or v[1] in self.m.decls):
                        at.add(v[1])
                        return
                    for x in v:
                        scan(x)
                elif isinstance(v, list):
                    for x in v:
                        scan(x)
            for f in self.m.funcs.values():
                for b in f.blocks.values():
                    for I in b:
                        for k, x in I.items():
                            if k == 'callee' and x[0] == 'global':
                                continue
                            if isinstance(x, (tuple, list)):
                                scan(x)
            for n, g in self.m.globals.items():
                if not n.startswith('_ZTV') and g['init'] is not None:
                    scan(g['init'])
            self._at = at
        return self._vt

    def sig_of(self, n):
        if n in self.replace and n not in self.m.funcs and n not in self.m.decls:
            return None
        if n in self.m.funcs:
            f = self.m.funcs[n]
            return (self.ct(f.ret), [self.ct(t) for t, _ in f.params], f.vararg)
        if n in self.m.decls:
            d = self.m.decls[n]
            return (self.ct(d.ret), [self.ct(t) for t in d.params], d.vararg)
        return None

    def base_chain(self, t):
        """names of the struct types at offset 0 of t (t itself, its first base, ...)"""
        out = []
        t = self.m.resolve(t)
        while t is not None and t.k == 'struct':
            if t.name is not None:
                out.append(t.name)
                if t.name.endswith('.base'):
                    out.append(t.name[:-5])
            if not t.fields:
                break
            t = self.m.resolve(t.fields[0])
        return out

    def this_compatible(self, cand, call_this):
        """C++ typing of virtual calls: the callee's `this` class must be the call's static class or derived from it"""
        if call_this is None or cand not in self.m.funcs:
            return True
        f = self.m.funcs[cand]
        if not f.params:
            return True
        ct_ = self.m.resolve(f.params[0][0])
        if ct_.k != 'ptr' or call_this.k != 'ptr':
            return True
        a, b = self.m.resolve(ct_.elem), self.m.resolve(call_this.elem)
        if a.k != 'struct' or b.k != 'struct' or a.name is None or b.name is None:
            return True
        ca, cb = self.base_chain(a), self.base_chain(b)
        return b.name in ca or a.name in cb

    def icall_candidates(self, callee, ctx, ps, rct, call_this=None):
        """own devirtualisation: the set of functions an indirect call can reach.
        vtable-slot loads -> functions in that slot of some vtable; otherwise address-taken functions of the same C signature."""
        self.last_slot = None
        if callee[0] != 'local' or not hasattr(ctx, 'defs'):
            return None
        vt = self.vtables()
        d = ctx.defs.get(callee[1])
        slot = None
        if d is not None and d['op'] == 'load' and d['p'][0] == 'local':
            p = ctx.defs.get(d['p'][1])
            while p is not None and p['op'] == 'cast' and p['a'][0] == 'local':
                p = ctx.defs.get(p['a'][1])
            if p is not None and p['op'] == 'load':
                slot = 0                      # fp = *vptr
            elif p is not None and p['op'] == 'getelementptr' and len(p['ops']) == 2 and p['ops'][1][1][0] == 'int' and p['ops'][0][1][0] == 'local':
                q = ctx.defs.get(p['ops'][0][1][1])
                while q is not None and q['op'] == 'cast' and q['a'][0] == 'local':
                    q = ctx.defs.get(q['a'][1])
                st = self.m.resolve(p['srcty'])
                if q is not None and q['op'] == 'load' and st.k == 'ptr':
                    slot = p['ops'][1][1][1]
        want = [x for x in ps if x != '...']
        out = []
        self.last_slot = slot

        def ok(n):
            if n in self.resumable and n not in self.replace:
                return False
            if n in self.m.funcs and n not in self.reach_fs and n not in self.replace:
                return False
            sg = self.sig_of(n)
            return sg is not None and sg[1] == want and sg[0] == rct
        if slot is not None:
            for n, ents in vt.items():
                if n not in self.reach_gs:
                    continue
                if 2 + slot < len(ents) and ents[2 + slot] is not None:
                    c = ents[2 + slot]
                    if c not in out and (ok(c) or c == '__cxa_pure_virtual'):
                        if c != '__cxa_pure_virtual' and self.this_compatible(c, call_this):
                            out.append(c)
            if out:
                return out
        for n in sorted(self._at | set(e for vn, ents in vt.items() if vn in self.reach_gs for e in ents if e)):
            if ok(n) and n not in out:
                out.append(n)
        return out

    # ------------------------------------------------------------------ resumable functions
    def compute_resumable(self, fs):
        """functions that (transitively, through direct calls) reach a visible operation: they become step functions"""
        yielding = set()
        changed = True
        while changed:
            changed = False
            for n in fs:
                if n in yielding or n in self.replace:
                    continue
                f = self.m.funcs[n]
                hit = False
                for b in f.blocks.values():
                    for I in b:
                        if I['op'] in ('call', 'invoke') and I['callee'][0] == 'global':
                            c = I['callee'][1]
                            if c in self.replace:
                                continue
                            if c in self.yield_calls or c in yielding:
                                hit = True
                if hit:
                    yielding.add(n)
                    changed = True
        return yielding

    def is_shared_access(self, I, ctx):
        """loads/stores of process globals and of fields of lock-bearing objects (a struct that contains a pthread mutex):
        the locations that the code protects with a lock somewhere and that may also be touched outside it"""
        p = I['p']
        seen = 0
        while p[0] == 'local' and seen < 8:
            d = ctx.defs.get(p[1])
            if d is None:
                return False
            if d['op'] == 'cast':
                p = d['a']
            elif d['op'] == 'getelementptr':
                if self.has_mutex(d['srcty']):
                    return True
                p = d['ops'][0][1]
            else:
                return False
            seen += 1
        if p[0] == 'global':
            g = self.m.globals.get(p[1])
            return g is not None and not g['const']
        if p[0] == 'gep':
            if self.has_mutex(p[1]):
                return True
            q = p[2][0][1]
            if q[0] == 'global':
                g = self.m.globals.get(q[1])
                return g is not None and not g['const']
        return False

    def is_local_ptr(self, p, ctx):
        seen = 0
        while p[0] == 'local' and seen < 10 and hasattr(ctx, 'defs'):
            d = ctx.defs.get(p[1])
            if d is None:
                return False
            if d['op'] == 'alloca':
                return True
            if d['op'] == 'cast':
                p = d['a']
            elif d['op'] == 'getelementptr':
                p = d['ops'][0][1]
            else:
                return False
            seen += 1
        return False

    def has_mutex(self, t, depth=0):
        t = self.m.resolve(t)
        if depth > 6:
            return False
        if t.k == 'struct':
            if t.name is not None and 'pthread_mutex' in t.name:
                return True
            return any(self.has_mutex(f, depth + 1) for f in (t.fields or []))
        if t.k == 'arr':
            return self.has_mutex(t.elem, depth + 1)
        return False

    def emit_resumable(self, f):
        """Emit f as a step function with a static frame per logical thread:
             void <f>_init(int tid, params...)     prepare a call
             int  <f>_step(int tid)                run from the saved pc up to the next visible operation; RS_RUNNING or RS_DONE
             int  <f>_enabled(int tid)             may the pending visible operation be executed now?
        Visible operations: the calls in --yield-calls (stop BEFORE them; enabledness RS_ENABLED_<op>), a stop AFTER the calls in
        --yield-after, two-phase calls (--yield-twophase: <op>_begin, stop, <op>_end with RS_ENABLED_<op>_end), and - with
        --shared-yield - a stop before each access to a process global or to a field of a lock-bearing object while RS_SHOULD_YIELD().
        Calls to other step functions are nested (callee frame, caller re-enters the callee until it is done).
        Every load/store/mem* is reported through IR2C_ACCESS(p, n, w) when --monitor is given."""
        ctx = Emitter.Ctx()
        fr = '%sFR_%s' % (self.pfx, san(f.name))
        ctx.lp = 'F->'
        pcs = [0]
        enab = []   # (pc, C expression)

        def newpc():
            pc = len(pcs)
            pcs.append(pc)
            return pc

        def ycb(kind, *a):
            if kind == 'access':
                p, n, w = a
                return ['  IR2C_ACCESS(%s, %s, %d);' % (p, n, w)]
            if kind == 'shared':
                pc = newpc()
                return ['  if (RS_SHOULD_YIELD(tid)) { F->pc = %d; return RS_RUNNING; }' % pc, 'R_%d: ;' % pc]
            if kind == 'ret':
                v = a[0]
                return ['  F->pc = -1; %sreturn RS_DONE;' % ('F->retval = %s; ' % v if v is not None else '')]
            if kind == 'call':
                n, args, I, declare = a
                rt = self.m.resolve(I['rt'])
                has_res = not (rt.k == 'void' or I['res'] is None)
                if n in self.yield_calls:
                    L = []
                    pc = newpc()
                    for i, x in enumerate(args):
                        an = 'y%d_%d' % (pc, i)
                        ctx.decls[an] = '%s %s' % (self.ct(I['args'][i][0]), an)
                        L.append('  F->%s = %s;' % (an, x))
                    fa = ', '.join(['tid'] + ['F->y%d_%d' % (pc, i) for i in range(len(args))])
                    two = n in self.yield_twophase
                    enab.append((pc, 'RS_ENABLED_%s%s(%s)' % (san(n), '_begin' if two else '', fa)))
                    L.append('  F->pc = %d; return RS_RUNNING;' % pc)
                    L.append('R_%d: ;' % pc)
                    if two:
                        L.append('  RS_%s_begin(%s);' % (san(n), fa))
                        pc2 = newpc()
                        enab.append((pc2, 'RS_ENABLED_%s_end(%s)' % (san(n), fa)))
                        L.append('  F->pc = %d; return RS_RUNNING;' % pc2)
                        L.append('R_%d: ;' % pc2)
                        call = 'RS_%s_end(%s)' % (san(n), fa)
                    else:
                        call = 'RS_%s(%s)' % (san(n), fa)
                    if has_res:
                        L.append('  %s = %s;' % (declare(I, I['rt']), call))
                    else:
                        L.append('  %s;' % call)
                    if n in self.yield_after:
                        pc3 = newpc()
                        L.append('  F->pc = %d; return RS_RUNNING;' % pc3)
                        L.append('R_%d: ;' % pc3)
                    return L
                if n in self.resumable and n not in self.replace:
                    if n == f.name:
                        raise NotImplementedError('recursive step function')
                    pc = newpc()
                    cf = '%sFR_%s' % (self.pfx, san(n))
                    L = ['  %s_init(%s);' % (self.fname(n), ', '.join(['tid'] + args))]
                    L.append('  F->pc = %d;' % pc)
                    L.append('R_%d: ;' % pc)
                    L.append('  if (%s_step(tid) == RS_RUNNING) return RS_RUNNING;' % self.fname(n))
                    enab.append((pc, '%s_enabled(tid)' % self.fname(n)))
                    if has_res:
                        L.append('  %s = %s_frames[tid].retval;' % (declare(I, I['rt']), cf))
                    return L
                return None
            if kind == 'icall':
                return None
            return None
        body = self.emit_body(f, ctx, ycb)
        L = []
        FL = []
        FL.append('struct %s {' % fr)
        FL.append('  int pc;')
        if self.m.resolve(f.ret).k != 'void':
            FL.append('  %s retval;' % self.ct(f.ret))
        for t, n in f.params:
            FL.append('  %s %s;' % (self.ct(t), self.local(n, None)))
        for n, d in ctx.decls.items():
            FL.append('  %s;' % d)
        FL.append('};')
        FL.append('struct %s %s_frames[RS_MAX_THREADS];' % (fr, fr))
        self.frame_defs.append('\n'.join(FL))
        ps = ''.join(', %s %s' % (self.ct(t), self.local(n, None)) for t, n in f.params)
        L.append('void %s_init(int tid%s) {' % (self.fname(f.name), ps))
        L.append('  struct %s *F = &%s_frames[tid];' % (fr, fr))
        L.append('  F->pc = 0;')
        for t, n in f.params:
            L.append('  F->%s = %s;' % (self.local(n, None), self.local(n, None)))
        L.append('}')
        L.append('int %s_enabled(int tid) {' % self.fname(f.name))
        L.append('  struct %s *F = &%s_frames[tid];' % (fr, fr))
        L.append('  switch (F->pc) {')
        L.append('    case -1: return 0;')
        for pc, e in enab:
            L.append('    case %d: return %s;' % (pc, e))
        L.append('    default: return 1;')
        L.append('  }')
        L.append('}')
        if self.m.resolve(f.ret).k != 'void':
            L.append('%s %s_result(int tid) { return %s_frames[tid].retval; }' % (self.ct(f.ret), self.fname(f.name), fr))
        L.append('int %s_step(int tid) {' % self.fname(f.name))
        L.append('  struct %s *F = &%s_frames[tid];' % (fr, fr))
        L.append('  switch (F->pc) {')
        L.append('    case 0: break;')
        for pc in pcs[1:]:
            L.append('    case %d: goto R_%d;' % (pc, pc))
        L.append('    default: return RS_DONE;')
        L.append('  }')
        L.extend(body)
        L.append('}')
        self.resumable_info = getattr(self, 'resumable_info', {})
        self.resumable_info[f.name] = dict(pcs=len(pcs))
        return '\n'.join(L)


def main():
    ap = argparse.ArgumentParser()
    ap.add_argument('ll')
    ap.add_argument('-o', required=True)
    ap.add_argument('--prefix', default='')
    ap.add_argument('--roots', default='', help='comma list of root functions (IR names); default: all vf_* functions')
    ap.add_argument('--replace', action='append', default=[], help='irname=cname : treat irname as external called cname')
    ap.add_argument('--resumable', default='')
    ap.add_argument('--yield-calls', default='')
    ap.add_argument('--yield-after', default='')
    ap.add_argument('--monitor', action='store_true')
    ap.add_argument('--yield-twophase', default='')
    ap.add_argument('--shared-yield', action='store_true')
    ap.add_argument('--auto-resumable', action='store_true')
    ap.add_argument('--meta', default=None)
    ap.add_argument('--exceptions', action='store_true', help='model C++ exceptions: in-flight flag ir2c_exc, landing pads, resume (env/env_exc.c)')
    a = ap.parse_args()
    text = open(a.ll).read()
    m = parse_module(text)
    rep = dict(x.split('=', 1) for x in a.replace)
    res = [x for x in a.resumable.split(',') if x]
    e = Emitter(m, a.prefix, rep, res, a.monitor)
    e.yield_calls = set(x for x in a.yield_calls.split(',') if x)
    e.yield_after = set(x for x in a.yield_after.split(',') if x)
    e.yield_twophase = set(x for x in a.yield_twophase.split(',') if x)
    e.shared_yield = a.shared_yield
    e.auto_resumable = a.auto_resumable
    e.exceptions = a.exceptions
    if a.exceptions:
        groups = {}
        for ln in text.split('\n'):
            mm = re.match(r'attributes #(\d+) = \{(.*)\}', ln)
            if mm and re.search(r'\bnounwind\b', mm.group(2)):
                groups[mm.group(1)] = True
        for ln in text.split('\n'):
            if ln.startswith('define ') or ln.startswith('declare '):
                mm = re.search(r'@("[^"]+"|[-a-zA-Z$._0-9]+)\(', ln)
                if mm and (re.search(r'\bnounwind\b', ln) or any(g in groups for g in re.findall(r'#(\d+)', ln[ln.rfind(')'):]))):
                    e.nounwind.add(mm.group(1).strip('"'))
    roots = [x for x in a.roots.split(',') if x]
    if not roots:
        roots = [n for n in m.funcs if n.startswith('vf_')]
    missing = [r for r in roots if r not in m.funcs]
    if missing:
        sys.exit('ir2c: roots not defined in module: %s' % missing)
    roots = roots + [c for c in m.ctors if c in m.funcs]
    c = e.emit_module(roots)
    open(a.o, 'w').write(c)
    meta = dict(functions=e.emitted_funcs, globals=e.emitted_globals,
                externals=sorted(n for n in e.externs_used if n not in m.funcs or n in e.untranslated or n in rep),
                untranslated=e.untranslated, replaced=rep, extern_globals=e.extern_globals,
                resumable=getattr(e, 'resumable_info', {}))
    if a.meta:
        json.dump(meta, open(a.meta, 'w'), indent=1)
    if e.untranslated:
        sys.stderr.write('ir2c: untranslated (left external): %s\n' % json.dumps(e.untranslated))


if __name__ == '__main__':
    main()
