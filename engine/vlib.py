"""vlib - shared machinery for the wencry solver-based checks.

Pipeline per run (regenerated from /repo's working tree every time):
  shim .cpp (+ real sources) --clang++-14--> LLVM IR --ir2c.py--> C --cbmc--> verdict
  counterexample --json trace--> input assignments --native build of the REAL sources--> replay
"""
import os, sys, json, time, shutil, subprocess, tempfile, hashlib, resource, re, atexit, signal
from concurrent.futures import ThreadPoolExecutor

VERIF = os.path.dirname(os.path.dirname(os.path.abspath(__file__)))
REPO = os.environ.get('WENCRY_REPO', '/repo')
ENGINE = os.path.join(VERIF, 'engine')
NCPU = os.cpu_count() or 4

INC = ['kernel', 'kernel/hash', 'kernel/multi_aes', 'kernel/multi_aes/aes', 'valget', 'valget/base64']
CLANG_BASE = ['clang++-14', '-std=c++17', '-O1', '-fno-vectorize', '-fno-slp-vectorize', '-fno-unroll-loops',
              '-fno-access-control', '-w', '-DWENCRY_VERIF', '-DOPT_ON', '-S', '-emit-llvm']
CBMC_CHECKS = ['--unwinding-assertions', '--pointer-overflow-check', '--undefined-shift-check',
               '--signed-overflow-check', '--drop-unused-functions', '--no-malloc-may-fail', '--object-bits', '12']


def sh(cmd, **kw):
    return subprocess.run(cmd, stdout=subprocess.PIPE, stderr=subprocess.PIPE, text=True, **kw)


class BrokenCheck(Exception):
    pass


class Workspace:
    def __init__(self, tag):
        base = os.environ.get('WENCRY_VERIF_TMP', '/var/tmp')
        self.dir = tempfile.mkdtemp(prefix='wv_%s_' % tag, dir=base)
        atexit.register(self.cleanup)

    def cleanup(self):
        if os.environ.get('VERIF_KEEP'):
            print('workspace kept: ' + self.dir)
            return
        shutil.rmtree(self.dir, ignore_errors=True)

    def path(self, *a):
        return os.path.join(self.dir, *a)


def _limits(mem_gb):
    def f():
        os.setsid()
        if mem_gb:
            b = int(mem_gb * (1 << 30))
            resource.setrlimit(resource.RLIMIT_AS, (b, b))
    return f


def run_limited(cmd, timeout, mem_gb=None, cwd=None, env=None):
    """returns (rc, stdout, stderr, wall, maxrss_kb); rc None on timeout"""
    t0 = time.time()
    p = subprocess.Popen(['/usr/bin/time', '-f', 'MAXRSS=%M', '-o', '/dev/stderr'] + cmd, stdout=subprocess.PIPE,
                         stderr=subprocess.PIPE, text=True, cwd=cwd, env=env, preexec_fn=_limits(mem_gb))
    try:
        out, err = p.communicate(timeout=timeout)
        rc = p.returncode
    except subprocess.TimeoutExpired:
        try:
            os.killpg(p.pid, signal.SIGKILL)
        except ProcessLookupError:
            pass
        out, err = p.communicate()
        rc = None
    m = re.search(r'MAXRSS=(\d+)', err or '')
    return rc, out, err, time.time() - t0, int(m.group(1)) if m else 0


# ----------------------------------------------------------------------------------------- units
class Unit:
    """One translated unit: shim (C++) -> IR -> C."""

    def __init__(self, name, shim, defines=(), clang_extra=('-fno-exceptions',), ir2c_args=(), extra_srcs=()):
        self.name, self.shim, self.defines = name, shim, list(defines)
        self.clang_extra, self.ir2c_args = list(clang_extra), list(ir2c_args)
        self.extra_srcs = list(extra_srcs)

    def key(self):
        return hashlib.sha1(json.dumps([self.name, self.shim, self.defines, self.clang_extra, self.ir2c_args, self.extra_srcs]).encode()).hexdigest()[:10]


class Builder:
    def __init__(self, ws):
        self.ws = ws
        self.cache = {}
        self.meta = {}

    def incs(self):
        return ['-I' + os.path.join(REPO, d) for d in INC] + ['-I' + os.path.join(VERIF, 'shim'), '-I' + REPO]

    def translate(self, u, prefix=''):
        k = (u.key(), prefix)
        if k in self.cache:
            return self.cache[k]
        d = self.ws.path('u_%s_%s' % (u.name, u.key()))
        os.makedirs(d, exist_ok=True)
        ll = os.path.join(d, u.name + '.ll')
        if not os.path.exists(ll):
            srcs = [os.path.join(VERIF, 'shim', u.shim)] + [os.path.join(REPO, x) for x in u.extra_srcs]
            parts = []
            for k, src in enumerate(srcs):
                pl = os.path.join(d, 'part%d.ll' % k) if len(srcs) > 1 else ll
                cmd = CLANG_BASE + u.clang_extra + (['-Dmain=wencry_main'] if os.path.basename(src) == 'main.cpp' else []) + ['-D' + x for x in u.defines] + self.incs() + [src, '-o', pl]
                r = sh(cmd)
                if r.returncode != 0:
                    raise BrokenCheck('clang failed for %s:\n%s' % (src, r.stderr[-3000:]))
                parts.append(pl)
            if len(srcs) > 1:
                r = sh(['llvm-link-14', '-S'] + parts + ['-o', ll])
                if r.returncode != 0:
                    raise BrokenCheck('llvm-link failed for %s:\n%s' % (u.name, r.stderr[-3000:]))
        c = os.path.join(d, '%s%s.c' % (prefix, u.name))
        meta = c + '.json'
        cmd = [sys.executable, os.path.join(ENGINE, 'ir2c.py'), ll, '-o', c, '--meta', meta, '--prefix', prefix] + u.ir2c_args
        r = sh(cmd)
        if r.returncode != 0:
            raise BrokenCheck('ir2c failed for %s:\n%s' % (u.name, (r.stderr or r.stdout)[-3000:]))
        m = json.load(open(meta))
        self.cache[k] = (c, m)
        self.meta[u.name] = m
        return c, m

    def real_object(self, u, san=True, extra_defs=()):
        """g++ build of the REAL sources through the same shim (for replay / translation validation)."""
        tag = 'san' if san else 'plain'
        d = self.ws.path('u_%s_%s' % (u.name, u.key()))
        os.makedirs(d, exist_ok=True)
        o = os.path.join(d, '%s_real_%s_%s.o' % (u.name, tag, hashlib.sha1(repr(extra_defs).encode()).hexdigest()[:6]))
        if os.path.exists(o):
            return o
        flags = ['-fsanitize=address,undefined', '-fno-sanitize-recover=undefined', '-g', '-O1'] if san else ['-O1']
        srcs = [os.path.join(VERIF, 'shim', u.shim)] + [os.path.join(REPO, x) for x in u.extra_srcs]
        parts = []
        for k, src in enumerate(srcs):
            po = o if len(srcs) == 1 else o[:-2] + '_p%d.o' % k
            cmd = ['g++', '-std=c++17', '-fno-access-control', '-w', '-DWENCRY_VERIF', '-DOPT_ON', '-c'] + flags + \
                  (['-Dmain=wencry_main'] if os.path.basename(src) == 'main.cpp' else []) + [x for x in u.clang_extra if x.startswith('-I')] + ['-D' + x for x in u.defines] + ['-D' + x for x in extra_defs] + self.incs() + [src, '-o', po]
            r = sh(cmd)
            if r.returncode != 0:
                raise BrokenCheck('g++ failed for %s:\n%s' % (src, r.stderr[-3000:]))
            parts.append(po)
        if len(srcs) > 1:
            r = sh(['ld', '-r', '-o', o] + parts)
            if r.returncode != 0:
                raise BrokenCheck('ld -r failed: %s' % r.stderr[-2000:])
        return o


# ----------------------------------------------------------------------------------------- obligations
class Ob:
    def __init__(self, name, harness, units, function='harness', defines=(), unwind=None, unwindset=(), envs=('env_heap.c', 'env_io.c'),
                 timeout=120, mem_gb=16, solver=None, replay='native', known_key=None, extra_c=(), note='', replay_envs=None,
                 cbmc_extra=(), expect_witness=True, replay_units=None):
        self.name, self.harness, self.units, self.function = name, harness, list(units), function
        self.defines, self.unwind, self.unwindset = list(defines), unwind, list(unwindset)
        self.envs, self.timeout, self.mem_gb, self.solver = list(envs), timeout, mem_gb, solver
        self.replay, self.known_key, self.extra_c, self.note = replay, known_key, list(extra_c), note
        self.replay_envs = replay_envs
        self.cbmc_extra = list(cbmc_extra)
        self.expect_witness = expect_witness
        self.replay_units = replay_units
        # results
        self.status = None      # HOLD | CEX | UNDECIDED | VACUOUS | ERROR
        self.detail = ''
        self.wall = 0.0
        self.rss_kb = 0
        self.failed_props = []
        self.nprops = 0
        self.trace_inputs = None
        self.replay_result = None
        self.replay_path = None
        self.solver_used = None
        self.ptr_notes = []
        self.steps = self.sat_vars = self.sat_clauses = 0


SOLVERS = {
    None: [],
    'minisat': ['--sat-solver', 'minisat2'],
    'cadical': ['--sat-solver', 'cadical'],
    'kissat': ['--external-sat-solver', 'kissat'],
    'z3': ['--z3'],
    'cvc5': ['--cvc5'],
}


def parse_cbmc_text(out):
    props = re.findall(r'^\[([^\]]+)\] (.*): (SUCCESS|FAILURE|UNKNOWN|ERROR)$', out, re.M)
    verdict = None
    if 'VERIFICATION SUCCESSFUL' in out:
        verdict = 'ok'
    elif 'VERIFICATION FAILED' in out:
        verdict = 'failed'
    return props, verdict


class Run:
    """One check run for one property."""

    def __init__(self, prop, tier, level='model_checking'):
        self.prop, self.tier, self.level = prop, tier, level
        self.seed = int(os.environ.get('VERIF_SEED', '0') or 0)
        self.ws = Workspace(prop)
        self.b = Builder(self.ws)
        self.obs = []
        self.t0 = time.time()
        self.notes = []
        self.assumptions = []
        self.tv_results = []
        self.functions_encoded = set()
        self.stubs = set()
        self.bounds = []
        self.outside = []
        self.samples = []
        self.extra_cov = {}
        self.tv_failed = None

    # ---- building blocks
    def add(self, ob):
        self.obs.append(ob)
        return ob

    def cbmc_cmd(self, ob, files, witness, trace=False):
        cmd = ['cbmc'] + files + ['-I' + ENGINE, '-I' + os.path.join(VERIF, 'env'), '-I' + os.path.join(VERIF, 'harness'), '-I' + os.path.join(VERIF, 'ref'),
                                  '--function', ob.function] + ['-D' + d for d in ob.defines]
        if witness:
            cmd.append('-DWITNESS')
        if ob.unwind is not None:
            cmd += ['--unwind', str(ob.unwind)]
        if ob.unwindset:
            cmd += ['--unwindset', ','.join(ob.unwindset)]
        cmd += CBMC_CHECKS + ob.cbmc_extra + SOLVERS[ob.solver] + ['--verbosity', '8']
        if trace:
            cmd += ['--trace', '--json-ui']
        return cmd

    def files_for(self, ob):
        files = []
        for u in ob.units:
            c, m = self.b.translate(u)
            files.append(c)
            self.functions_encoded.update(m['functions'])
            self.stubs.update(m['externals'])
        files += [os.path.join(VERIF, 'env', e) for e in ob.envs]
        files += [os.path.join(VERIF, 'harness', ob.harness)] + [os.path.join(VERIF, x) for x in ob.extra_c]
        return files

    def run_ob(self, ob):
        try:
            files = self.files_for(ob)
        except BrokenCheck as e:
            ob.status, ob.detail = 'ERROR', str(e)
            return ob
        env = dict(os.environ)
        if ob.solver == 'cvc5':
            env['PATH'] = os.path.join(ENGINE, 'shim_bin') + ':' + env['PATH']
        cmd = self.cbmc_cmd(ob, files, witness=ob.expect_witness)
        if os.environ.get('VERIF_KEEP'):
            print('CMD[%s]: %s' % (ob.name, ' '.join(cmd)))
        rc, out, err, wall, rss = run_limited(cmd, ob.timeout, ob.mem_gb, env=env)
        ob.wall, ob.rss_kb, ob.solver_used = wall, rss, ob.solver or 'cbmc-default'
        if rc is None:
            ob.status, ob.detail = 'UNDECIDED', 'timeout after %ds' % ob.timeout
            return ob
        props, verdict = parse_cbmc_text(out)
        ob.nprops = len(props)
        mm = re.findall(r'size of program expression: (\d+) steps', out)
        ob.steps = sum(int(x) for x in mm)
        mm = re.findall(r'(\d+) variables, (\d+) clauses', out)
        ob.sat_vars = max([int(a) for a, b in mm] + [0])
        ob.sat_clauses = max([int(b) for a, b in mm] + [0])
        nb = re.findall(r'no body for (?:function|callee) (\S+)', out + err)
        if nb:
            ob.status, ob.detail = 'ERROR', 'environment incomplete: no body for %s' % sorted(set(nb))[:8]
            return ob
        if verdict is None or rc not in (0, 10):
            ob.status = 'UNDECIDED' if ('std::bad_alloc' in err or 'ut of memory' in err or 'ut of memory' in out or rc in (-9, 137)) else 'ERROR'
            ob.detail = 'cbmc rc=%s: %s' % (rc, (err.strip() or out.strip())[-1500:])
            return ob
        failed = [(n, d) for n, d, s in props if s in ('FAILURE', 'ERROR')]
        unknown = [(n, d) for n, d, s in props if s == 'UNKNOWN']
        wit = [(n, d) for n, d in failed if 'WITNESS' in d]
        real = [(n, d) for n, d in failed if 'WITNESS' not in d]
        # CBMC's pointer-overflow check flags the formation of one-before / far-past pointers (array-delete loops, end iterators):
        # no sanitizer confirms those; they are kept as notes and reported separately, never as the violation itself
        ptrarith = [(n, d) for n, d in real if '.pointer_arithmetic.' in n]
        real = [(n, d) for n, d in real if '.pointer_arithmetic.' not in n]
        if ptrarith:
            ob.ptr_notes = ptrarith[:5]
        unwind_f = [(n, d) for n, d in real if 'unwinding assertion' in d]
        if unwind_f and len(unwind_f) == len(real):
            ob.status, ob.detail = 'UNDECIDED', 'unwinding bound too small: %s' % unwind_f[:3]
            return ob
        if real:
            ob.status = 'CEX'
            ob.failed_props = real
            # rerun with trace
            cmd = self.cbmc_cmd(ob, files, witness=False, trace=True)
            rc2, out2, err2, wall2, rss2 = run_limited(cmd, ob.timeout * 2, ob.mem_gb, env=env)
            ob.wall += wall2
            try:
                ob.trace_inputs, ob.trace_prop = extract_inputs(out2)
            except Exception as e:   # noqa
                ob.detail = 'trace extraction failed: %r' % e
            return ob
        if unknown:
            ob.status, ob.detail = 'UNDECIDED', 'properties with UNKNOWN status and no failure: %s' % unknown[:3]
            return ob
        if ob.expect_witness and not wit:
            ob.status, ob.detail = 'VACUOUS', 'witness assert(0) not reachable: harness is vacuous'
            return ob
        ob.status = 'HOLD'
        return ob

    def run_all(self, jobs=None):
        jobs = jobs or max(1, NCPU // 2)
        only = os.environ.get('VERIF_ONLY')
        if only:
            self.obs = [o for o in self.obs if re.search(only, o.name)]
        for ob in self.obs:      # translate units up front (single-threaded; cached)
            try:
                self.files_for(ob)
            except BrokenCheck as e:
                pass
        with ThreadPoolExecutor(jobs) as ex:
            list(ex.map(self.run_ob, self.obs))
        def rp(ob):
            try:
                self.replay_native(ob)
            except BrokenCheck as e:
                ob.replay_result = 'ERROR: %s' % e
        todo = [ob for ob in self.obs if ob.status == 'CEX' and ob.replay == 'native' and ob.trace_inputs is not None]
        for ob in todo[:1]:
            rp(ob)                       # first one alone: builds the shared real objects
        with ThreadPoolExecutor(jobs) as ex:
            list(ex.map(rp, todo[1:]))

    # ---- replay on the real sources
    def replay_native(self, ob, assignments=None, keep=True):
        assignments = assignments if assignments is not None else ob.trace_inputs
        d = self.ws.path('replay_' + re.sub(r'\W', '_', ob.name))
        os.makedirs(d, exist_ok=True)
        inc = os.path.join(d, 'replay_inputs.h')
        with open(inc, 'w') as f:
            f.write('#define REPLAY_ASSIGN() do { %s } while (0)\n' % ' '.join(a + ';' for a in assignments))
        objs = [self.b.real_object(u) for u in (ob.replay_units if ob.replay_units is not None else ob.units)]
        exe = os.path.join(d, 'replay')
        envs = ob.replay_envs if ob.replay_envs is not None else ['env_native.c']
        cfiles = [os.path.join(VERIF, 'harness', ob.harness)] + [os.path.join(VERIF, 'env', e) for e in envs] + [os.path.join(VERIF, x) for x in ob.extra_c]
        cobjs = []
        for cf in cfiles:
            o = os.path.join(d, os.path.basename(cf) + '.o')
            cmd = ['gcc', '-std=gnu11', '-w', '-g', '-O0', '-fsanitize=address,undefined', '-fno-sanitize-recover=undefined', '-DREPLAY', '-include', inc,
                   '-I' + ENGINE, '-I' + os.path.join(VERIF, 'env'), '-I' + os.path.join(VERIF, 'harness'), '-I' + os.path.join(VERIF, 'ref')] + \
                  ['-D' + x for x in ob.defines] + ['-c', cf, '-o', o]
            r = sh(cmd)
            if r.returncode != 0:
                raise BrokenCheck('replay compile failed (%s): %s' % (cf, r.stderr[-2000:]))
            cobjs.append(o)
        r = sh(['g++', '-fsanitize=address,undefined', '-o', exe] + cobjs + objs + ['-lpthread'])
        if r.returncode != 0:
            raise BrokenCheck('replay link failed: %s' % r.stderr[-2000:])
        env = dict(os.environ, ASAN_OPTIONS='detect_leaks=0:abort_on_error=0:new_delete_type_mismatch=0:alloc_dealloc_mismatch=0', UBSAN_OPTIONS='print_stacktrace=1')
        rc, out, err, wall, rss = run_limited([exe], 20, None, cwd=d, env=env)
        txt = (out + '\n' + err)
        if rc == 0 and 'REPLAY-PASS' in out:
            ob.replay_result = 'NOT-REPRODUCED'
        elif rc is None:
            ob.replay_result = 'REPRODUCED (hang: no termination within 20 s)'
        elif 'REPLAY-ASSUME-VIOLATED' in txt:
            ob.replay_result = 'NOT-REPRODUCED (assumption violated natively)'
        else:
            m = re.search(r'REPLAY-FAIL: (.*)', txt) or re.search(r'(ERROR: AddressSanitizer[^\n]*|runtime error:[^\n]*|SUMMARY: [^\n]*)', txt)
            ob.replay_result = 'REPRODUCED (%s)' % (m.group(1)[:300] if m else 'exit status %s' % rc)
        ob.replay_output = txt[-3000:]
        if keep:
            rp = os.path.join(VERIF, 'replay')
            os.makedirs(rp, exist_ok=True)
            h = hashlib.sha1(json.dumps([ob.name, assignments]).encode()).hexdigest()[:10]
            ob.replay_path = os.path.join(rp, '%s-%s.json' % (self.prop, h))
            json.dump(dict(property=self.prop, obligation=ob.name, harness=ob.harness, defines=ob.defines,
                           units=[u.name for u in ob.units], failed=ob.failed_props[:5], assignments=assignments, replay_envs=envs,
                           replay_result=ob.replay_result), open(ob.replay_path, 'w'), indent=1)
        return ob.replay_result

    # ---- model / implementation concordance
    def concord(self, cases, jobs=8):
        """cases: [(Ob, assignments)].  The same harness is compiled natively against the REAL build and run on concrete inputs: the
        CHECKs that the solver discharged on the generated C must also pass on the real code (validates environment models and the
        translator on this unit; a failure is a concrete, replayable violation on the real build)."""
        only = os.environ.get('VERIF_ONLY')
        if only:
            cases = [(o, a) for o, a in cases if re.search(only, o.name)]
        def one(c):
            ob, asg = c
            try:
                res = self.replay_native(ob, assignments=asg, keep=True)
            except BrokenCheck as e:
                ob.status, ob.detail = 'ERROR', 'concordance run failed: %s' % e
                return
            if res.startswith('REPRODUCED'):
                ob.status, ob.failed_props, ob.trace_inputs = 'CEX', [('real-build', res)], asg
            elif res.startswith('NOT-REPRODUCED ('):
                ob.status, ob.detail = 'ERROR', 'concordance case violates a harness assumption: %s' % asg
            else:
                ob.status = 'HOLD'
                self.tv_results.append(dict(unit='real build', case=ob.name, inputs_agreeing=1))
        for c in cases[:1]:
            one(c)
        with ThreadPoolExecutor(jobs) as ex:
            list(ex.map(one, cases[1:]))
        for ob, asg in cases:
            if ob.status != 'HOLD':
                self.obs.append(ob)

    # ---- translation validation
    def tv(self, u, driver, extra_env=('env_heap.c', 'env_cxx.c', 'env_io.c', 'env_native_tv.c'), n_random=2000):
        """Compile generated C (prefix c_) natively, link with the g++ build of the real sources and the driver,
        run: the driver must print  TV-OK <n>  (bit-for-bit agreement on n inputs)."""
        c, m = self.b.translate(u, prefix='c_')
        d = self.ws.path('tv_' + u.name)
        os.makedirs(d, exist_ok=True)
        obj = self.b.real_object(u, san=False)
        exe = os.path.join(d, 'tv')
        cmd = ['gcc', '-std=gnu11', '-w', '-O1', '-fno-strict-aliasing', '-I' + ENGINE, '-I' + os.path.join(VERIF, 'env'), '-I' + os.path.join(VERIF, 'ref'), '-DTV_RANDOM=%d' % n_random,
               '-DTV_SEED=%d' % self.seed, '-c']
        objs = []
        for cf in [c, os.path.join(VERIF, 'tv', driver)] + [os.path.join(VERIF, 'env', e) for e in extra_env]:
            o = os.path.join(d, os.path.basename(cf) + '.o')
            r = sh(cmd + [cf, '-o', o])
            if r.returncode != 0:
                raise BrokenCheck('tv compile failed (%s): %s' % (cf, r.stderr[-2000:]))
            objs.append(o)
        r = sh(['g++', '-o', exe] + objs + [obj, '-lpthread'])
        if r.returncode != 0:
            raise BrokenCheck('tv link failed: %s' % r.stderr[-2000:])
        rc, out, err, wall, rss = run_limited([exe], 120, None, cwd=d)
        mm = re.search(r'TV-OK (\d+)', out)
        if rc != 0 or not mm:
            # generated C and real build disagree: either the translator is wrong, or the code has undefined behaviour (e.g. an
            # out-of-bounds read) that the two builds resolve differently. The obligations still run; if they find nothing the check is BROKEN.
            self.tv_failed = 'translation validation FAILED for unit %s: %s' % (u.name, (out + err)[-600:])
            self.tv_results.append(dict(unit=u.name, inputs_agreeing=0, mismatch=(out + err)[-300:]))
            return 0
        self.tv_results.append(dict(unit=u.name, inputs_agreeing=int(mm.group(1)), wall_s=round(wall, 2)))
        return int(mm.group(1))

    # ---- verdict + evidence
    def finish(self, known_file=os.path.join(VERIF, 'known_findings.txt')):
        known = load_known(known_file, self.prop)
        violations, known_hits, undecided, errors = [], [], [], []
        for ob in self.obs:
            if ob.status == 'CEX':
                key = ob.known_key
                if key and key in known:
                    known_hits.append((ob, known[key]))
                else:
                    violations.append(ob)
            elif ob.status in ('UNDECIDED',):
                undecided.append(ob)
            elif ob.status in ('ERROR', 'VACUOUS', None):
                errors.append(ob)
        # listed known findings must still fail (otherwise the entry is stale: say so, but that is not a violation)
        stale = [k for k in known if not any(ob.known_key == k and ob.status == 'CEX' for ob in self.obs) and any(ob.known_key == k for ob in self.obs)]
        wall = time.time() - self.t0
        discharged = sum(1 for ob in self.obs if ob.status == 'HOLD')
        cov = dict(
            obligations=len(self.obs), discharged=discharged,
            states=max(1, sum(o.sat_vars for o in self.obs)), transitions=max(1, sum(o.steps for o in self.obs)),
            traces_validated_against_impl=sum(1 for o in self.obs if (o.replay_result or '').startswith('REPRODUCED')) + sum(t.get('inputs_agreeing', 0) for t in self.tv_results),
            explanation='bounded symbolic model checking: "states" = propositional variables of the SAT/SMT instances (bits of symbolic program state over all obligations), "transitions" = SSA steps (assignments, guards, assertions) of the unrolled real code, "traces_validated_against_impl" = counterexample traces replayed on the g++ build of the real sources plus concrete traces on which the generated C and the real build agreed bit for bit (translation validation)',
            checker_cmd='cbmc 6.11.0 --unwinding-assertions --pointer-overflow-check --undefined-shift-check --signed-overflow-check --drop-unused-functions (per obligation, see samples)',
            trusted_base=['clang++-14 -O1 front end (source -> LLVM IR)', 'engine/ir2c.py (IR -> C), validated each run by differential execution against the g++ build',
                          'cbmc 6.11.0 + SAT/SMT back ends', 'environment models in /verif/env', 'reference specifications in /verif/ref (validated against openssl/hashlib)'],
            evaluations=len(self.obs), distinct_nontrivial=max(2, discharged) if discharged >= 2 else discharged,
            rule='one evaluation = one solver query (obligation) over symbolic inputs; an obligation is non-trivial iff its reachability witness (assert(0) twin) was violated, i.e. the assertion is reachable',
            functions_encoded=sorted(self.functions_encoded), stubs_and_externals=sorted(self.stubs),
            bounds=self.bounds, outside_claim=self.outside, translation_validation=self.tv_results,
            undecided=[dict(obligation=o.name, why=o.detail) for o in undecided],
            solver_wall_s=round(sum(o.wall for o in self.obs), 1), peak_rss_mb=max([o.rss_kb for o in self.obs] + [0]) // 1024,
            samples=[dict(obligation=o.name, harness=o.harness, defines=o.defines, unwind=o.unwind, status=o.status, properties_checked=o.nprops,
                          solver=o.solver_used, wall_s=round(o.wall, 1), rss_mb=o.rss_kb // 1024, note=o.note,
                          **({'replay': o.replay_result} if o.replay_result else {})) for o in self.obs][:400],
            known_findings=[dict(obligation=o.name, key=o.known_key, text=t, replay=o.replay_result) for o, t in known_hits],
            notes=self.notes, pointer_overflow_notes=[dict(obligation=o.name, props=o.ptr_notes) for o in self.obs if o.ptr_notes][:20],
        )
        cov.update(self.extra_cov)
        ev = dict(property_id=self.prop, tier=self.tier, seed=self.seed, level=self.level, coverage=cov,
                  assumptions=self.assumptions, wall_s=round(wall, 1), violations=len(violations))
        os.makedirs(os.path.join(VERIF, 'evidence'), exist_ok=True)
        json.dump(ev, open(os.path.join(VERIF, 'evidence', self.prop + '.json'), 'w'), indent=1)
        for ob, t in known_hits:
            print('KNOWN-FINDING: property=%s %s %s [%s]' % (self.prop, ob.known_key, t, ob.replay_result))
        for k in stale:
            print('NOTE: known finding %r no longer fails (entry is stale)' % k)
        for ob in undecided:
            print('UNDECIDED obligation=%s %s' % (ob.name, ob.detail))
        rc = 0
        for ob in errors:
            print('BROKEN obligation=%s status=%s %s' % (ob.name, ob.status, ob.detail[-600:]))
            rc = 2
        unconfirmed = []
        for ob in violations:
            rr = ob.replay_result or ''
            if ob.replay == 'native' and not rr.startswith('REPRODUCED'):
                unconfirmed.append(ob)
                print('UNCONFIRMED-COUNTEREXAMPLE obligation=%s failed=%s replay=%s detail=%s' % (ob.name, ob.failed_props[:2], rr, ob.detail))
                continue
            print('VIOLATION property=%s replay=%s obligation=%s failed=%s [%s]' % (self.prop, ob.replay_path, ob.name, ob.failed_props[:2], rr))
            rc = 1
        if unconfirmed and rc == 0:
            rc = 3
        if self.tv_failed and rc == 0:
            print('BROKEN check %s: %s (and no obligation failed)' % (self.prop, self.tv_failed))
            rc = 2
        print('%s %s: %d/%d obligations discharged, %d violation(s), %d known, %d undecided, %.1fs' % (
            self.prop, self.tier, discharged, len(self.obs), len(violations), len(known_hits), len(undecided), wall))
        return rc


def extract_inputs(json_text):
    """from cbmc --json-ui --trace output: last assignment to every leaf of IN -> C assignment strings"""
    data = json.loads(json_text)
    for e in data:
        if 'result' in e:
            for r in e['result']:
                if r.get('status') == 'FAILURE' and 'trace' in r:
                    vals = {}
                    for s in r['trace']:
                        if s.get('stepType') != 'assignment':
                            continue
                        lhs = s.get('lhs', '')
                        if not (lhs.startswith('IN.') or lhs.startswith('IN[')) or '$' in lhs:
                            continue
                        v = s.get('value', {})
                        if v.get('name') != 'integer' and v.get('name') != 'boolean':
                            continue
                        lhs = re.sub(r'\[(\d+)l?\]', r'[\1]', lhs)
                        if 'binary' in v:
                            vals[lhs] = int(v['binary'], 2)
                        else:
                            vals[lhs] = 1 if v.get('data') in ('true', 'TRUE', '1') else 0
                    return ['%s=%dU' % (k, x) if x < (1 << 32) else '%s=%dULL' % (k, x) for k, x in vals.items()], r.get('property')
    return None, None


def load_known(path, prop):
    known = {}
    if os.path.exists(path):
        for ln in open(path):
            m = re.match(r'known:\s+property=(\S+)\s+key=(\S+)\s+(.*)', ln.strip())
            if m and m.group(1) == prop:
                known[m.group(2)] = m.group(3)
    return known
