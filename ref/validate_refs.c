/* prints reference outputs for inputs given on stdin so that validate_refs.py can compare them with hashlib/hmac/openssl */
#include <stdio.h>
#include <stdlib.h>
#include "ref_hash.h"
#include "ref_aes.h"
#include "ref_b64.h"
static void hex(const uint8_t *p, int n) { for (int i = 0; i < n; i++) printf("%02x", p[i]); printf("\n"); }
int main(int argc, char **argv)
{
  static uint8_t buf[8192], key[64], out[8192];
  int mode = atoi(argv[1]);
  unsigned len = (unsigned)fread(buf, 1, sizeof buf, stdin);
  if (mode < 3) { ref_hash(mode, buf, len, out); hex(out, ref_hash_len(mode)); }
  else if (mode < 6) { memcpy(key, buf, 16); ref_hmac(mode - 3, key, 16, buf + 16, len - 16, out); hex(out, ref_hash_len(mode - 3)); }
  else if (mode == 6) { ref_aes128_encrypt(buf, buf + 16, out); hex(out, 16); }
  else if (mode == 7) { ref_aes128_decrypt(buf, buf + 16, out); hex(out, 16); }
  else if (mode == 8) { unsigned n = ref_b64_encode(buf, len, out); fwrite(out, 1, n, stdout); printf("\n"); }
  return 0;
}
