/* RFC 4648 base64 reference (written from the RFC, independent of the repository) */
#ifndef REF_B64_H
#define REF_B64_H
#include <stdint.h>
static const char ref_b64_alphabet[65] = "ABCDEFGHIJKLMNOPQRSTUVWXYZabcdefghijklmnopqrstuvwxyz0123456789+/";
/* returns number of chars written excluding the NUL */
static inline unsigned ref_b64_encode(const uint8_t *in, unsigned len, uint8_t *out)
{
  unsigned o = 0, i = 0;
  for (; i + 3 <= len; i += 3) {
    uint32_t v = ((uint32_t)in[i] << 16) | ((uint32_t)in[i + 1] << 8) | in[i + 2];
    out[o++] = ref_b64_alphabet[(v >> 18) & 63]; out[o++] = ref_b64_alphabet[(v >> 12) & 63];
    out[o++] = ref_b64_alphabet[(v >> 6) & 63];  out[o++] = ref_b64_alphabet[v & 63];
  }
  if (len - i == 1) {
    uint32_t v = (uint32_t)in[i] << 16;
    out[o++] = ref_b64_alphabet[(v >> 18) & 63]; out[o++] = ref_b64_alphabet[(v >> 12) & 63]; out[o++] = '='; out[o++] = '=';
  } else if (len - i == 2) {
    uint32_t v = ((uint32_t)in[i] << 16) | ((uint32_t)in[i + 1] << 8);
    out[o++] = ref_b64_alphabet[(v >> 18) & 63]; out[o++] = ref_b64_alphabet[(v >> 12) & 63];
    out[o++] = ref_b64_alphabet[(v >> 6) & 63];  out[o++] = '=';
  }
  out[o] = 0;
  return o;
}
static inline int ref_b64_val(uint8_t c)
{
  if (c >= 'A' && c <= 'Z') return c - 'A';
  if (c >= 'a' && c <= 'z') return c - 'a' + 26;
  if (c >= '0' && c <= '9') return c - '0' + 52;
  if (c == '+') return 62;
  if (c == '/') return 63;
  return -1;
}
#endif
