#!/usr/bin/env python3
"""validate the reference implementations in /verif/ref against hashlib / hmac / base64 / openssl (all offline)"""
import hashlib, hmac, base64, subprocess, os, random, sys, tempfile
D = os.path.dirname(os.path.abspath(__file__))
exe = os.path.join(tempfile.mkdtemp(prefix='wv_ref_', dir='/var/tmp'), 'vr')
subprocess.check_call(['gcc', '-O1', '-w', '-I' + D, os.path.join(D, 'validate_refs.c'), '-o', exe])
def run(mode, data): return subprocess.run([exe, str(mode)], input=data, stdout=subprocess.PIPE).stdout.decode().strip()
rnd = random.Random(int(os.environ.get('VERIF_SEED', '0') or 0))
n = 0
algs = ['sha1', 'md5', 'sha256']
for ln in list(range(0, 200)) + [255, 256, 257, 1000, 4000]:
    m = bytes(rnd.randrange(256) for _ in range(ln))
    for a in range(3):
        assert run(a, m) == hashlib.new(algs[a], m).hexdigest(), (algs[a], ln)
        k = bytes(rnd.randrange(256) for _ in range(16))
        assert run(3 + a, k + m) == hmac.new(k, m, algs[a]).hexdigest(), ('hmac', algs[a], ln)
        n += 2
    assert run(8, m[:60]) == base64.b64encode(m[:60]).decode(), ('b64', ln); n += 1
for i in range(40):
    k = bytes(rnd.randrange(256) for _ in range(16)); b = bytes(rnd.randrange(256) for _ in range(16))
    c = subprocess.run(['openssl', 'enc', '-aes-128-ecb', '-nopad', '-K', k.hex()], input=b, stdout=subprocess.PIPE).stdout
    assert run(6, k + b) == c.hex(), 'aes enc'
    assert run(7, k + c) == b.hex(), 'aes dec'
    n += 2
# FIPS-197 Appendix B
assert run(6, bytes.fromhex('2b7e151628aed2a6abf7158809cf4f3c') + bytes.fromhex('3243f6a8885a308d313198a2e0370734')) == '3925841d02dc09fbdc118597196a0b32'
import shutil; shutil.rmtree(os.path.dirname(exe))
print('REFS-OK %d comparisons' % n)
