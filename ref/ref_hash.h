/* FIPS 180-4 (SHA-1, SHA-256) and RFC 1321 (MD5) references written from the standards; validated against hashlib
   by ref/validate_refs.py.  Exposes single rounds (for the lockstep obligations) and whole digests. */
#ifndef REF_HASH_H
#define REF_HASH_H
#include <stdint.h>
#include <string.h>
#include "ref_hash_consts.h"
static inline uint32_t ref_rotl(uint32_t x, int n) { return (x << n) | (x >> (32 - n)); }
static inline uint32_t ref_rotr(uint32_t x, int n) { return (x >> n) | (x << (32 - n)); }
static inline uint32_t ref_be32(const uint8_t *p) { return ((uint32_t)p[0] << 24) | ((uint32_t)p[1] << 16) | ((uint32_t)p[2] << 8) | p[3]; }
static inline uint32_t ref_le32(const uint8_t *p) { return ((uint32_t)p[3] << 24) | ((uint32_t)p[2] << 16) | ((uint32_t)p[1] << 8) | p[0]; }

/* ---------------- SHA-1 (FIPS 180-4 6.1) ---------------- */
static const uint32_t ref_sha1_H0[5] = {0x67452301u, 0xefcdab89u, 0x98badcfeu, 0x10325476u, 0xc3d2e1f0u};
static inline void ref_sha1_round(int t, uint32_t s[5], uint32_t w)
{
  uint32_t a = s[0], b = s[1], c = s[2], d = s[3], e = s[4], f, k;
  if (t < 20) { f = (b & c) ^ (~b & d); k = 0x5a827999u; }
  else if (t < 40) { f = b ^ c ^ d; k = 0x6ed9eba1u; }
  else if (t < 60) { f = (b & c) ^ (b & d) ^ (c & d); k = 0x8f1bbcdcu; }
  else { f = b ^ c ^ d; k = 0xca62c1d6u; }
  uint32_t T = ref_rotl(a, 5) + f + e + k + w;
  s[4] = d; s[3] = c; s[2] = ref_rotl(b, 30); s[1] = a; s[0] = T;
}
static inline void ref_sha1_sched(const uint8_t *blk, uint32_t w[80])
{
  for (int t = 0; t < 16; t++) w[t] = ref_be32(blk + 4 * t);
  for (int t = 16; t < 80; t++) w[t] = ref_rotl(w[t - 3] ^ w[t - 8] ^ w[t - 14] ^ w[t - 16], 1);
}
static inline void ref_sha1_compress(uint32_t h[5], const uint8_t *blk)
{
  uint32_t w[80], s[5];
  ref_sha1_sched(blk, w);
  for (int i = 0; i < 5; i++) s[i] = h[i];
  for (int t = 0; t < 80; t++) ref_sha1_round(t, s, w[t]);
  for (int i = 0; i < 5; i++) h[i] += s[i];
}
/* ---------------- SHA-256 (FIPS 180-4 6.2) ---------------- */
static inline void ref_sha256_round(int t, uint32_t s[8], uint32_t w)
{
  uint32_t a = s[0], b = s[1], c = s[2], d = s[3], e = s[4], f = s[5], g = s[6], h = s[7];
  uint32_t S1 = ref_rotr(e, 6) ^ ref_rotr(e, 11) ^ ref_rotr(e, 25), ch = (e & f) ^ (~e & g);
  uint32_t T1 = h + S1 + ch + ref_sha256_K[t] + w;
  uint32_t S0 = ref_rotr(a, 2) ^ ref_rotr(a, 13) ^ ref_rotr(a, 22), maj = (a & b) ^ (a & c) ^ (b & c);
  uint32_t T2 = S0 + maj;
  s[7] = g; s[6] = f; s[5] = e; s[4] = d + T1; s[3] = c; s[2] = b; s[1] = a; s[0] = T1 + T2;
}
static inline uint32_t ref_sha256_s0(uint32_t x) { return ref_rotr(x, 7) ^ ref_rotr(x, 18) ^ (x >> 3); }
static inline uint32_t ref_sha256_s1(uint32_t x) { return ref_rotr(x, 17) ^ ref_rotr(x, 19) ^ (x >> 10); }
static inline void ref_sha256_sched(const uint8_t *blk, uint32_t w[64])
{
  for (int t = 0; t < 16; t++) w[t] = ref_be32(blk + 4 * t);
  for (int t = 16; t < 64; t++) w[t] = ref_sha256_s1(w[t - 2]) + w[t - 7] + ref_sha256_s0(w[t - 15]) + w[t - 16];
}
static inline void ref_sha256_compress(uint32_t h[8], const uint8_t *blk)
{
  uint32_t w[64], s[8];
  ref_sha256_sched(blk, w);
  for (int i = 0; i < 8; i++) s[i] = h[i];
  for (int t = 0; t < 64; t++) ref_sha256_round(t, s, w[t]);
  for (int i = 0; i < 8; i++) h[i] += s[i];
}
/* ---------------- MD5 (RFC 1321 3.4) ---------------- */
static const uint32_t ref_md5_H0[4] = {0x67452301u, 0xefcdab89u, 0x98badcfeu, 0x10325476u};
static const uint8_t ref_md5_S[4][4] = {{7, 12, 17, 22}, {5, 9, 14, 20}, {4, 11, 16, 23}, {6, 10, 15, 21}};
static inline int ref_md5_k(int i) { int r = i / 16; return r == 0 ? i : r == 1 ? (5 * i + 1) % 16 : r == 2 ? (3 * i + 5) % 16 : (7 * i) % 16; }
/* one step with roles (a,b,c,d): returns the new value of role a */
static inline uint32_t ref_md5_step(int i, uint32_t a, uint32_t b, uint32_t c, uint32_t d, uint32_t x)
{
  int r = i / 16;
  uint32_t f = r == 0 ? ((b & c) | (~b & d)) : r == 1 ? ((b & d) | (c & ~d)) : r == 2 ? (b ^ c ^ d) : (c ^ (b | ~d));
  return b + ref_rotl(a + f + x + ref_md5_T[i], ref_md5_S[r][i % 4]);
}
static inline void ref_md5_compress(uint32_t h[4], const uint8_t *blk)
{
  uint32_t v[4] = {h[0], h[1], h[2], h[3]}, x[16];
  for (int i = 0; i < 16; i++) x[i] = ref_le32(blk + 4 * i);
  for (int i = 0; i < 64; i++) {
    int ia = (64 - i) % 4, ib = (65 - i) % 4, ic = (66 - i) % 4, id = (67 - i) % 4;
    v[ia] = ref_md5_step(i, v[ia], v[ib], v[ic], v[id], x[ref_md5_k(i)]);
  }
  for (int i = 0; i < 4; i++) h[i] += v[i];
}
/* ---------------- padding + whole digests (alg: 0 SHA-1, 1 MD5, 2 SHA-256 - the repository's htype numbering) ---------------- */
static inline int ref_hash_words(int alg) { return alg == 0 ? 5 : alg == 1 ? 4 : 8; }
static inline int ref_hash_len(int alg) { return 4 * ref_hash_words(alg); }
static inline void ref_hash_init(int alg, uint32_t *h)
{
  const uint32_t *s = alg == 0 ? ref_sha1_H0 : alg == 1 ? ref_md5_H0 : ref_sha256_H0;
  for (int i = 0; i < ref_hash_words(alg); i++) h[i] = s[i];
}
static inline void ref_hash_compress(int alg, uint32_t *h, const uint8_t *blk)
{
  if (alg == 0) ref_sha1_compress(h, blk); else if (alg == 1) ref_md5_compress(h, blk); else ref_sha256_compress(h, blk);
}
/* padded tail of a message of total_len bytes whose last (total_len % 64) bytes are tail[]: writes 64 or 128 bytes, returns count */
static inline unsigned ref_hash_pad(int alg, const uint8_t *tail, uint64_t total_len, uint8_t out[128])
{
  unsigned r = (unsigned)(total_len % 64), n = r < 56 ? 64 : 128;
  uint64_t bits = total_len * 8;
  memset(out, 0, 128);
  for (unsigned i = 0; i < r; i++) out[i] = tail[i];
  out[r] = 0x80;
  for (int i = 0; i < 8; i++) out[n - 8 + i] = alg == 1 ? (uint8_t)(bits >> (8 * i)) : (uint8_t)(bits >> (8 * (7 - i)));
  return n;
}
static inline void ref_hash_output(int alg, const uint32_t *h, uint8_t *out)
{
  for (int i = 0; i < ref_hash_words(alg); i++)
    for (int j = 0; j < 4; j++) out[4 * i + j] = alg == 1 ? (uint8_t)(h[i] >> (8 * j)) : (uint8_t)(h[i] >> (8 * (3 - j)));
}
static inline void ref_hash(int alg, const uint8_t *msg, uint64_t len, uint8_t *out)
{
  uint32_t h[8];
  uint8_t pad[128];
  ref_hash_init(alg, h);
  uint64_t i = 0;
  for (; i + 64 <= len; i += 64) ref_hash_compress(alg, h, msg + i);
  unsigned n = ref_hash_pad(alg, msg + i, len, pad);
  for (unsigned j = 0; j < n; j += 64) ref_hash_compress(alg, h, pad + j);
  ref_hash_output(alg, h, out);
}
/* RFC 2104 HMAC with a 64-byte block, key <= 64 bytes */
static inline void ref_hmac(int alg, const uint8_t *key, unsigned klen, const uint8_t *msg, uint64_t len, uint8_t *out)
{
  uint8_t k0[64], ibuf[64 + 4096], obuf[64 + 32], ih[32];
  memset(k0, 0, 64);
  memcpy(k0, key, klen);
  for (int i = 0; i < 64; i++) { ibuf[i] = k0[i] ^ 0x36; obuf[i] = k0[i] ^ 0x5c; }
  memcpy(ibuf + 64, msg, len);            /* callers keep len <= 4096 */
  ref_hash(alg, ibuf, 64 + len, ih);
  memcpy(obuf + 64, ih, ref_hash_len(alg));
  ref_hash(alg, obuf, 64 + ref_hash_len(alg), out);
}
#endif
