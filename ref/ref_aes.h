/* FIPS-197 AES-128 reference, written from the standard (independent of the repository).
   State is the FIPS linear input order: st[r + 4c] = s[r][c].  Validated against openssl (ref/validate_refs.py). */
#ifndef REF_AES_H
#define REF_AES_H
#include <stdint.h>
static inline uint8_t ref_xtime(uint8_t x) { return (uint8_t)((x << 1) ^ ((x & 0x80) ? 0x1b : 0)); }
static inline uint8_t ref_gmul(uint8_t a, uint8_t b)
{
  uint8_t p = 0;
  for (int i = 0; i < 8; i++) { if (b & 1) p ^= a; a = ref_xtime(a); b >>= 1; }
  return p;
}
/* multiplicative inverse in GF(2^8) as x^254 (0 -> 0) */
static inline uint8_t ref_ginv(uint8_t x)
{
  uint8_t x2 = ref_gmul(x, x), x4 = ref_gmul(x2, x2), x8 = ref_gmul(x4, x4), x16 = ref_gmul(x8, x8);
  uint8_t x32 = ref_gmul(x16, x16), x64 = ref_gmul(x32, x32), x128 = ref_gmul(x64, x64);
  return ref_gmul(ref_gmul(ref_gmul(ref_gmul(ref_gmul(ref_gmul(x128, x64), x32), x16), x8), x4), x2);
}
static inline uint8_t ref_rotl8(uint8_t x, int n) { return (uint8_t)((x << n) | (x >> (8 - n))); }
/* FIPS-197 5.1.1: affine transformation of the inverse */
static inline uint8_t ref_sbox_alg(uint8_t x)
{
  uint8_t b = ref_ginv(x);
  return (uint8_t)(b ^ ref_rotl8(b, 1) ^ ref_rotl8(b, 2) ^ ref_rotl8(b, 3) ^ ref_rotl8(b, 4) ^ 0x63);
}
/* FIPS-197 Figure 7 */
static const uint8_t ref_sbox[256] = {
  0x63,0x7c,0x77,0x7b,0xf2,0x6b,0x6f,0xc5,0x30,0x01,0x67,0x2b,0xfe,0xd7,0xab,0x76,
  0xca,0x82,0xc9,0x7d,0xfa,0x59,0x47,0xf0,0xad,0xd4,0xa2,0xaf,0x9c,0xa4,0x72,0xc0,
  0xb7,0xfd,0x93,0x26,0x36,0x3f,0xf7,0xcc,0x34,0xa5,0xe5,0xf1,0x71,0xd8,0x31,0x15,
  0x04,0xc7,0x23,0xc3,0x18,0x96,0x05,0x9a,0x07,0x12,0x80,0xe2,0xeb,0x27,0xb2,0x75,
  0x09,0x83,0x2c,0x1a,0x1b,0x6e,0x5a,0xa0,0x52,0x3b,0xd6,0xb3,0x29,0xe3,0x2f,0x84,
  0x53,0xd1,0x00,0xed,0x20,0xfc,0xb1,0x5b,0x6a,0xcb,0xbe,0x39,0x4a,0x4c,0x58,0xcf,
  0xd0,0xef,0xaa,0xfb,0x43,0x4d,0x33,0x85,0x45,0xf9,0x02,0x7f,0x50,0x3c,0x9f,0xa8,
  0x51,0xa3,0x40,0x8f,0x92,0x9d,0x38,0xf5,0xbc,0xb6,0xda,0x21,0x10,0xff,0xf3,0xd2,
  0xcd,0x0c,0x13,0xec,0x5f,0x97,0x44,0x17,0xc4,0xa7,0x7e,0x3d,0x64,0x5d,0x19,0x73,
  0x60,0x81,0x4f,0xdc,0x22,0x2a,0x90,0x88,0x46,0xee,0xb8,0x14,0xde,0x5e,0x0b,0xdb,
  0xe0,0x32,0x3a,0x0a,0x49,0x06,0x24,0x5c,0xc2,0xd3,0xac,0x62,0x91,0x95,0xe4,0x79,
  0xe7,0xc8,0x37,0x6d,0x8d,0xd5,0x4e,0xa9,0x6c,0x56,0xf4,0xea,0x65,0x7a,0xae,0x08,
  0xba,0x78,0x25,0x2e,0x1c,0xa6,0xb4,0xc6,0xe8,0xdd,0x74,0x1f,0x4b,0xbd,0x8b,0x8a,
  0x70,0x3e,0xb5,0x66,0x48,0x03,0xf6,0x0e,0x61,0x35,0x57,0xb9,0x86,0xc1,0x1d,0x9e,
  0xe1,0xf8,0x98,0x11,0x69,0xd9,0x8e,0x94,0x9b,0x1e,0x87,0xe9,0xce,0x55,0x28,0xdf,
  0x8c,0xa1,0x89,0x0d,0xbf,0xe6,0x42,0x68,0x41,0x99,0x2d,0x0f,0xb0,0x54,0xbb,0x16};
static inline uint8_t ref_inv_sbox(uint8_t y)   /* only used natively (validation / replay) */
{
  for (int x = 0; x < 256; x++) if (ref_sbox[x] == y) return (uint8_t)x;
  return 0;
}
static inline void ref_add_round_key(uint8_t *st, const uint8_t *rk) { for (int i = 0; i < 16; i++) st[i] ^= rk[i]; }
static inline void ref_sub_bytes(uint8_t *st) { for (int i = 0; i < 16; i++) st[i] = ref_sbox[st[i]]; }
static inline void ref_shift_rows(uint8_t *st)
{
  uint8_t t[16];
  for (int r = 0; r < 4; r++) for (int c = 0; c < 4; c++) t[r + 4 * c] = st[r + 4 * ((c + r) & 3)];
  for (int i = 0; i < 16; i++) st[i] = t[i];
}
static inline void ref_inv_shift_rows(uint8_t *st)
{
  uint8_t t[16];
  for (int r = 0; r < 4; r++) for (int c = 0; c < 4; c++) t[r + 4 * ((c + r) & 3)] = st[r + 4 * c];
  for (int i = 0; i < 16; i++) st[i] = t[i];
}
static inline void ref_mix_columns(uint8_t *st)
{
  for (int c = 0; c < 4; c++) {
    uint8_t a0 = st[4 * c], a1 = st[4 * c + 1], a2 = st[4 * c + 2], a3 = st[4 * c + 3];
    st[4 * c + 0] = (uint8_t)(ref_gmul(a0, 2) ^ ref_gmul(a1, 3) ^ a2 ^ a3);
    st[4 * c + 1] = (uint8_t)(a0 ^ ref_gmul(a1, 2) ^ ref_gmul(a2, 3) ^ a3);
    st[4 * c + 2] = (uint8_t)(a0 ^ a1 ^ ref_gmul(a2, 2) ^ ref_gmul(a3, 3));
    st[4 * c + 3] = (uint8_t)(ref_gmul(a0, 3) ^ a1 ^ a2 ^ ref_gmul(a3, 2));
  }
}
static inline void ref_inv_mix_columns(uint8_t *st)
{
  for (int c = 0; c < 4; c++) {
    uint8_t a0 = st[4 * c], a1 = st[4 * c + 1], a2 = st[4 * c + 2], a3 = st[4 * c + 3];
    st[4 * c + 0] = (uint8_t)(ref_gmul(a0, 14) ^ ref_gmul(a1, 11) ^ ref_gmul(a2, 13) ^ ref_gmul(a3, 9));
    st[4 * c + 1] = (uint8_t)(ref_gmul(a0, 9) ^ ref_gmul(a1, 14) ^ ref_gmul(a2, 11) ^ ref_gmul(a3, 13));
    st[4 * c + 2] = (uint8_t)(ref_gmul(a0, 13) ^ ref_gmul(a1, 9) ^ ref_gmul(a2, 14) ^ ref_gmul(a3, 11));
    st[4 * c + 3] = (uint8_t)(ref_gmul(a0, 11) ^ ref_gmul(a1, 13) ^ ref_gmul(a2, 9) ^ ref_gmul(a3, 14));
  }
}
static const uint8_t ref_rcon[11] = {0x00, 0x01, 0x02, 0x04, 0x08, 0x10, 0x20, 0x40, 0x80, 0x1b, 0x36};
/* FIPS-197 5.2: one expansion step: round key r (16 bytes, w[4r..4r+3]) from round key r-1 */
static inline void ref_key_step(const uint8_t *prev, int r, uint8_t *out)
{
  uint8_t t[4] = {ref_sbox[prev[13]], ref_sbox[prev[14]], ref_sbox[prev[15]], ref_sbox[prev[12]]};  /* SubWord(RotWord(w[i-1])) */
  t[0] ^= ref_rcon[r];
  for (int i = 0; i < 4; i++) out[i] = prev[i] ^ t[i];
  for (int i = 4; i < 16; i++) out[i] = prev[i] ^ out[i - 4];
}
static inline void ref_key_expand(const uint8_t *key, uint8_t *rk176)
{
  for (int i = 0; i < 16; i++) rk176[i] = key[i];
  for (int r = 1; r <= 10; r++) ref_key_step(rk176 + 16 * (r - 1), r, rk176 + 16 * r);
}
static inline void ref_aes128_encrypt(const uint8_t *key, const uint8_t *in, uint8_t *out)
{
  uint8_t rk[176], st[16];
  ref_key_expand(key, rk);
  for (int i = 0; i < 16; i++) st[i] = in[i];
  ref_add_round_key(st, rk);
  for (int r = 1; r <= 9; r++) { ref_sub_bytes(st); ref_shift_rows(st); ref_mix_columns(st); ref_add_round_key(st, rk + 16 * r); }
  ref_sub_bytes(st); ref_shift_rows(st); ref_add_round_key(st, rk + 160);
  for (int i = 0; i < 16; i++) out[i] = st[i];
}
static inline void ref_aes128_decrypt(const uint8_t *key, const uint8_t *in, uint8_t *out)
{
  uint8_t rk[176], st[16];
  ref_key_expand(key, rk);
  for (int i = 0; i < 16; i++) st[i] = in[i];
  ref_add_round_key(st, rk + 160);
  for (int r = 9; r >= 1; r--) {
    ref_inv_shift_rows(st);
    for (int i = 0; i < 16; i++) st[i] = ref_inv_sbox(st[i]);
    ref_add_round_key(st, rk + 16 * r);
    ref_inv_mix_columns(st);
  }
  ref_inv_shift_rows(st);
  for (int i = 0; i < 16; i++) st[i] = ref_inv_sbox(st[i]);
  ref_add_round_key(st, rk);
  for (int i = 0; i < 16; i++) out[i] = st[i];
}
#endif
