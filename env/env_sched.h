/* Scheduler environment for the sequentialised pipeline (DESIGN 4.3): logical threads are step functions (ir2c --auto-resumable);
   this file gives the semantics of the visible operations.  tid 0 = the thread that calls run_multicry (it becomes the I/O thread),
   tids 1..T = worker threads in creation order. */
#ifndef ENV_SCHED_H
#define ENV_SCHED_H
#include "ir2c_rt.h"
#ifndef RS_MAX_THREADS
#define RS_MAX_THREADS 4
#endif
extern int rs_cur, rs_nthreads;
extern u8 rs_started[RS_MAX_THREADS], rs_done[RS_MAX_THREADS], rs_held[RS_MAX_THREADS], rs_wid[RS_MAX_THREADS];
extern u8 *rs_wmode[RS_MAX_THREADS];
#undef RS_SHOULD_YIELD
#define RS_SHOULD_YIELD(tid) (rs_held[tid] == 0)
/* std::mutex */
int rs_mutex_free(u8 *m);
#define RS_ENABLED_pthread_mutex_lock(tid, m) rs_mutex_free(m)
u32 RS_pthread_mutex_lock(int tid, u8 *m);
#define RS_ENABLED_pthread_mutex_unlock(tid, m) 1
u32 RS_pthread_mutex_unlock(int tid, u8 *m);
/* std::condition_variable::wait(unique_lock&) - two visible steps */
#define CVWAIT _ZNSt18condition_variable4waitERSt11unique_lockISt5mutexE
#define RS_ENABLED__ZNSt18condition_variable4waitERSt11unique_lockISt5mutexE_begin(tid, cv, lk) 1
void RS__ZNSt18condition_variable4waitERSt11unique_lockISt5mutexE_begin(int tid, u8 *cv, u8 *lk);
int RS_ENABLED__ZNSt18condition_variable4waitERSt11unique_lockISt5mutexE_end(int tid, u8 *cv, u8 *lk);
void RS__ZNSt18condition_variable4waitERSt11unique_lockISt5mutexE_end(int tid, u8 *cv, u8 *lk);
/* timed condition waits (std::condition_variable::wait_for / wait_until -> pthread_cond_clockwait / pthread_cond_timedwait): like wait,
   but the time-out may fire at ANY moment (threads may be arbitrarily slow), so the second step is enabled as soon as the mutex is free;
   it returns ETIMEDOUT if the thread was not notified.  steady_clock::now() is an arbitrary value. */
#define RS_ENABLED_pthread_cond_clockwait_begin(tid, c, m, clk, ts) 1
void RS_pthread_cond_clockwait_begin(int tid, u8 *c, u8 *m, u32 clk, u8 *ts);
int RS_ENABLED_pthread_cond_clockwait_end(int tid, u8 *c, u8 *m, u32 clk, u8 *ts);
u32 RS_pthread_cond_clockwait_end(int tid, u8 *c, u8 *m, u32 clk, u8 *ts);
#define RS_ENABLED_pthread_cond_timedwait_begin(tid, c, m, ts) 1
#define RS_pthread_cond_timedwait_begin(tid, c, m, ts) RS_pthread_cond_clockwait_begin(tid, c, m, 0, ts)
#define RS_ENABLED_pthread_cond_timedwait_end(tid, c, m, ts) RS_ENABLED_pthread_cond_clockwait_end(tid, c, m, 0, ts)
#define RS_pthread_cond_timedwait_end(tid, c, m, ts) RS_pthread_cond_clockwait_end(tid, c, m, 0, ts)
/* std::thread */
#define RS_ENABLED__ZNSt6thread15_M_start_threadESt10unique_ptrINS_6_StateESt14default_deleteIS1_EEPFvvE(tid, thr, st, fn) 1
void RS__ZNSt6thread15_M_start_threadESt10unique_ptrINS_6_StateESt14default_deleteIS1_EEPFvvE(int tid, u8 *thr, u8 *st, u8 *fn);
int RS_ENABLED__ZNSt6thread4joinEv(int tid, u8 *thr);
void RS__ZNSt6thread4joinEv(int tid, u8 *thr);
/* monitor */
void rs_access(u8 *p, u64 n, int w);
#endif
