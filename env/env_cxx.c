/* libstdc++ externals that generated code calls: std::string out-of-line members (SSO layout {ptr,size,{cap|buf[16]}}),
   throw helpers (a throw in this -fno-exceptions translation == std::terminate in the real build: reported as a failure),
   static-init registration.  Formatting / iostream externals are in env_io.c. */
#include "ir2c_rt.h"
#include <stdlib.h>
#ifdef __CPROVER__
#define ENV_ASSERT(c, msg) __CPROVER_assert(c, msg)
#define ENV_ASSUME(c) __CPROVER_assume(c)
#else
#include <stdio.h>
#define ENV_ASSERT(c, msg) do { if (!(c)) { fprintf(stderr, "ENV_ASSERT failed: %s\n", msg); abort(); } } while (0)
#define ENV_ASSUME(c) do { if (!(c)) abort(); } while (0)
#endif
struct env_str { u8 *p; u64 size; union { u64 cap; u8 buf[16]; } u; };
u32 X___cxa_atexit(u8 *f, u8 *a, u8 *d) { (void)f; (void)a; (void)d; return 0; }
static int env_str_local(struct env_str *s) { return s->p == s->u.buf; }
static u64 env_str_cap(struct env_str *s) { return env_str_local(s) ? 15 : s->u.cap; }
u8 *X__ZNSt7__cxx1112basic_stringIcSt11char_traitsIcESaIcEE9_M_createERmm(u8 *self, u8 *capp, u64 old)
{
  u64 cap = *(u64 *)capp;
  ENV_ASSERT(cap < ((u64)1 << 40), "std::string length_error");
  if (cap > old && cap < 2 * old) { cap = 2 * old; *(u64 *)capp = cap; }
  u8 *p = malloc(cap + 1);
  ENV_ASSUME(p != 0);
  return p;
}
void X__ZNSt7__cxx1112basic_stringIcSt11char_traitsIcESaIcEED2Ev(u8 *self)
{
  struct env_str *s = (struct env_str *)self;
  if (!env_str_local(s)) free(s->p);
}
void X__ZNSt7__cxx1112basic_stringIcSt11char_traitsIcESaIcEED1Ev(u8 *self) { X__ZNSt7__cxx1112basic_stringIcSt11char_traitsIcESaIcEED2Ev(self); }
static void env_str_reserve(struct env_str *s, u64 n)
{
  if (n <= env_str_cap(s)) return;
  u8 *np = malloc(n + 1);
  ENV_ASSUME(np != 0);
  memcpy(np, s->p, s->size + 1);
  if (!env_str_local(s)) free(s->p);
  s->p = np; s->u.cap = n;
}
void X__ZNSt7__cxx1112basic_stringIcSt11char_traitsIcESaIcEE7reserveEm(u8 *self, u64 n) { env_str_reserve((struct env_str *)self, n); }
void X__ZNSt7__cxx1112basic_stringIcSt11char_traitsIcESaIcEE12_M_constructEmc(u8 *self, u64 n, u8 c)
{
  struct env_str *s = (struct env_str *)self;
  if (n > 15) { s->p = malloc(n + 1); ENV_ASSUME(s->p != 0); s->u.cap = n; } else s->p = s->u.buf;
  memset(s->p, c, n); s->p[n] = 0; s->size = n;
}
u8 *X__ZNSt7__cxx1112basic_stringIcSt11char_traitsIcESaIcEE9_M_appendEPKcm(u8 *self, u8 *src, u64 n)
{
  struct env_str *s = (struct env_str *)self;
  env_str_reserve(s, s->size + n);
  memcpy(s->p + s->size, src, n); s->size += n; s->p[s->size] = 0;
  return self;
}
u8 *X__ZNSt7__cxx1112basic_stringIcSt11char_traitsIcESaIcEE10_M_replaceEmmPKcm(u8 *self, u64 pos, u64 len1, u8 *src, u64 len2)
{
  struct env_str *s = (struct env_str *)self;
  ENV_ASSERT(pos <= s->size && len1 <= s->size - pos, "std::string::replace range");
  u64 tail = s->size - pos - len1, nsz = s->size - len1 + len2;
  u8 *tmp = malloc(len2 + 1); ENV_ASSUME(tmp != 0);
  memcpy(tmp, src, len2);              /* src may alias *this */
  env_str_reserve(s, nsz);
  memmove(s->p + pos + len2, s->p + pos + len1, tail);
  memcpy(s->p + pos, tmp, len2);
  free(tmp);
  s->size = nsz; s->p[nsz] = 0;
  return self;
}
void X__ZNSt7__cxx1112basic_stringIcSt11char_traitsIcESaIcEE9_M_assignERKS4_(u8 *self, u8 *other)
{
  struct env_str *s = (struct env_str *)self, *o = (struct env_str *)other;
  if (s == o) return;
  env_str_reserve(s, o->size);
  memcpy(s->p, o->p, o->size); s->size = o->size; s->p[s->size] = 0;
}
void X__ZNSt7__cxx1112basic_stringIcSt11char_traitsIcESaIcEE9_M_mutateEmmPKcm(u8 *self, u64 pos, u64 len1, u8 *src, u64 len2)
{
  X__ZNSt7__cxx1112basic_stringIcSt11char_traitsIcESaIcEE10_M_replaceEmmPKcm(self, pos, len1, src, len2);
}
#define ENV_THROW(name, msg) void name { ENV_ASSERT(0, msg); ENV_ASSUME(0); }
ENV_THROW(X__ZSt9terminatev(void), "std::terminate")
#ifndef IR2C_EXCEPTIONS   /* units translated with ir2c --exceptions get the real thing from env_exc.c */
ENV_THROW(X__ZSt20__throw_length_errorPKc(u8 *m), "throws std::length_error (terminate)")
ENV_THROW(X__ZSt19__throw_logic_errorPKc(u8 *m), "throws std::logic_error (terminate)")
ENV_THROW(X__ZSt24__throw_out_of_range_fmtPKcz(u8 *m, ...), "throws std::out_of_range (terminate)")
ENV_THROW(X__ZSt25__throw_bad_function_callv(void), "throws std::bad_function_call (terminate)")
ENV_THROW(X__ZSt20__throw_system_errori(u32 e), "throws std::system_error (terminate)")
ENV_THROW(X__ZSt16__throw_bad_castv(void), "throws std::bad_cast (terminate)")
ENV_THROW(X__ZSt17__throw_bad_allocv(void), "throws std::bad_alloc")
#endif
/* basic_string(basic_string&&) */
void X__ZNSt7__cxx1112basic_stringIcSt11char_traitsIcESaIcEEC2EOS4_(u8 *self, u8 *other)
{
  struct env_str *s = (struct env_str *)self, *o = (struct env_str *)other;
  if (env_str_local(o)) { s->p = s->u.buf; memcpy(s->u.buf, o->u.buf, 16); } else { s->p = o->p; s->u.cap = o->u.cap; }
  s->size = o->size;
  o->p = o->u.buf; o->size = 0; o->u.buf[0] = 0;
}
void X__ZNSt7__cxx1112basic_stringIcSt11char_traitsIcESaIcEEC1EOS4_(u8 *self, u8 *other) { X__ZNSt7__cxx1112basic_stringIcSt11char_traitsIcESaIcEEC2EOS4_(self, other); }
