/* heap + C++ runtime externals used by generated code */
#include "ir2c_rt.h"
#include <stdlib.h>
#ifdef __CPROVER__
#define ENV_ASSERT(c, msg) __CPROVER_assert(c, msg)
#define ENV_ASSUME(c) __CPROVER_assume(c)
#else
#include <stdio.h>
#define ENV_ASSERT(c, msg) do { if (!(c)) { fprintf(stderr, "ENV_ASSERT failed: %s\n", msg); abort(); } } while (0)
#define ENV_ASSUME(c) do { if (!(c)) abort(); } while (0)
#endif
u8 *X__Znwm(u64 n) { u8 *p = malloc(n); ENV_ASSUME(p != 0); return p; }
u8 *X__Znam(u64 n) { u8 *p = malloc(n); ENV_ASSUME(p != 0); return p; }
void X__ZdlPv(u8 *p) { free(p); }
void X__ZdaPv(u8 *p) { free(p); }
void X__ZdlPvm(u8 *p, u64 n) { (void)n; free(p); }
void X___cxa_pure_virtual(void) { ENV_ASSERT(0, "pure virtual call"); ENV_ASSUME(0); }
u8 *env_alloc(u64 n) { u8 *p = malloc(n); ENV_ASSUME(p != 0); return p; }
