/* synchronisation externals for SEQUENTIAL harnesses (no second thread exists): a mutex is an owner flag, misuse is reported.
   The schedule-exploring harnesses use env_sched.c instead. */
#include "ir2c_rt.h"
#ifdef __CPROVER__
#define ENV_ASSERT(c, msg) __CPROVER_assert(c, msg)
#define ENV_ASSUME(c) __CPROVER_assume(c)
#else
#include <stdio.h>
#include <stdlib.h>
#define ENV_ASSERT(c, msg) do { if (!(c)) { fprintf(stderr, "ENV_ASSERT failed: %s\n", msg); abort(); } } while (0)
#define ENV_ASSUME(c) do { if (!(c)) abort(); } while (0)
#endif
u32 X_pthread_mutex_lock(u8 *m) { ENV_ASSERT(m[0] == 0, "sequential harness: mutex already held (self-deadlock)"); m[0] = 1; return 0; }
u32 X_pthread_mutex_unlock(u8 *m) { ENV_ASSERT(m[0] == 1, "unlock of a mutex that is not held"); m[0] = 0; return 0; }
void X__ZNSt18condition_variableC1Ev(u8 *cv) { memset(cv, 0, 48); }
void X__ZNSt18condition_variableD1Ev(u8 *cv) { (void)cv; }
void X__ZNSt18condition_variable10notify_allEv(u8 *cv) { (void)cv; }
void X__ZNSt18condition_variable4waitERSt11unique_lockISt5mutexE(u8 *cv, u8 *lk) { ENV_ASSERT(0, "sequential harness: condition wait would block forever"); ENV_ASSUME(0); }
