/* FILE environment, two implementations with one harness-facing API:
   env_file.c        - the model used by CBMC (and by natively-run generated C in translation validation): X_fread/X_fwrite/...
   env_native_file.c - real stdio FILE objects (fopencookie) for replay against the real build, with the same write log */
#ifndef ENV_FILE_H
#define ENV_FILE_H
#include "ir2c_rt.h"
#ifndef ENVF_LOGCAP
#define ENVF_LOGCAP 64
#endif
u8 *envf_open_in(const u8 *data, u64 len);   /* "rb": readable, contents = data[0..len) */
u8 *envf_open_out(u64 cap);                  /* "wb+": empty, readable and writable, at most cap bytes */
u8 *envf_open_rw(const u8 *data, u64 len, u64 cap);
u64 envf_len(u8 *f);
u8 envf_byte(u8 *f, u64 i);
u32 envf_nwrites(u8 *f);                     /* number of fwrite calls that reached this file */
u64 envf_write_off(u8 *f, u32 k);
u64 envf_write_len(u8 *f, u32 k);
u32 envf_write_seq(u8 *f, u32 k);            /* global sequence number of that write / read (orders events across files) */
u32 envf_nreads(u8 *f);
u32 envf_first_read_seq(u8 *f);
u32 envf_closed(u8 *f);
void envf_seek(u8 *f, u64 pos);
u64 envf_tell(u8 *f);
void envf_release(u8 *f);
#endif
