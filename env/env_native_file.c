/* native replay: real stdio FILE objects backed by memory (fopencookie), same harness-facing API and write log as env_file.c */
#define _GNU_SOURCE
#include "env_file.h"
#include <stdio.h>
#include <stdlib.h>
#include <sys/types.h>
struct nfile { u8 *data; u64 len, cap, pos; int writable, closed; FILE *fp;
  u32 nwrites, nreads, first_read_seq; u64 woff[ENVF_LOGCAP], wlen[ENVF_LOGCAP]; u32 wseq[ENVF_LOGCAP]; };
static u32 envf_seq;
static struct nfile *tab[64]; static int ntab;
static ssize_t c_read(void *c, char *buf, size_t n)
{
  struct nfile *f = c; u64 avail = f->pos < f->len ? f->len - f->pos : 0; if (n > avail) n = avail;
  memcpy(buf, f->data + f->pos, n); f->pos += n; ++envf_seq; if (f->nreads++ == 0) f->first_read_seq = envf_seq; return n;
}
static ssize_t c_write(void *c, const char *buf, size_t n)
{
  struct nfile *f = c;
  if (!f->writable) { printf("REPLAY-FAIL: write to a file opened read-only (input file must not be modified)\n"); exit(1); }
  if (n > f->cap || f->pos > f->cap - n) { printf("REPLAY-FAIL: fwrite beyond the modelled file capacity (more output than the bound allows)\n"); exit(1); }
  memcpy(f->data + f->pos, buf, n);
  if (f->nwrites < ENVF_LOGCAP) { f->woff[f->nwrites] = f->pos; f->wlen[f->nwrites] = n; f->wseq[f->nwrites] = ++envf_seq; }
  f->nwrites++; f->pos += n; if (f->pos > f->len) f->len = f->pos; return n;
}
static int c_seek(void *c, off64_t *off, int whence)
{
  struct nfile *f = c; u64 np = whence == SEEK_SET ? (u64)*off : whence == SEEK_CUR ? f->pos + *off : f->len + *off;
  f->pos = np; *off = np; return 0;
}
static int c_close(void *c) { struct nfile *f = c; f->closed = 1; return 0; }
static u8 *mk(const u8 *data, u64 len, u64 cap, int writable)
{
  struct nfile *f = calloc(1, sizeof *f); f->data = malloc(cap ? cap : 1); if (len) memcpy(f->data, data, len);
  f->len = len; f->cap = cap; f->writable = writable;
  cookie_io_functions_t io = {c_read, c_write, c_seek, c_close};
  f->fp = fopencookie(f, writable ? "w+" : "r", io);
  setvbuf(f->fp, NULL, _IONBF, 0);          /* unbuffered: every fwrite reaches the log as issued */
  tab[ntab++] = f; return (u8 *)f->fp;
}
static struct nfile *look(u8 *h) { for (int i = 0; i < ntab; i++) if ((u8 *)tab[i]->fp == h) return tab[i]; abort(); }
u8 *envf_open_in(const u8 *data, u64 len) { return mk(data, len, len, 0); }
u8 *envf_open_out(u64 cap) { return mk(0, 0, cap, 1); }
u8 *envf_open_rw(const u8 *data, u64 len, u64 cap) { return mk(data, len, cap, 1); }
u64 envf_len(u8 *h) { return look(h)->len; }
u8 envf_byte(u8 *h, u64 i) { return look(h)->data[i]; }
u32 envf_nwrites(u8 *h) { return look(h)->nwrites; }
u64 envf_write_off(u8 *h, u32 k) { return look(h)->woff[k]; }
u64 envf_write_len(u8 *h, u32 k) { return look(h)->wlen[k]; }
u32 envf_write_seq(u8 *h, u32 k) { return look(h)->wseq[k]; }
u32 envf_nreads(u8 *h) { return look(h)->nreads; }
u32 envf_first_read_seq(u8 *h) { return look(h)->first_read_seq; }
u32 envf_closed(u8 *h) { return look(h)->closed; }
void envf_seek(u8 *h, u64 pos) { fseek((FILE *)h, (long)pos, SEEK_SET); }
u64 envf_tell(u8 *h) { return (u64)ftell((FILE *)h); }
void envf_release(u8 *h) { for (int i = 0; i < ntab; i++) if ((u8 *)tab[i]->fp == h) { struct nfile *f = tab[i]; fclose(f->fp); free(f->data); free(f); tab[i] = tab[--ntab]; return; } }
