/* native replay environment: real libc; exact-size allocations so that ASan sees overflows */
#include "ir2c_rt.h"
#include <stdlib.h>
u8 *env_alloc(u64 n) { u8 *p = malloc(n ? n : 1); if (!p) abort(); return p; }
