/* native replay environment: real libc; exact-size allocations so that ASan sees overflows */
#include "ir2c_rt.h"
#include <stdlib.h>
u8 *env_alloc(u64 n) { u8 *p = malloc(n ? n : 1); if (!p) abort(); return p; }
/* defaults for harness-served callbacks of the real build (overridden by harnesses that define them) */
__attribute__((weak)) u32 vf_stub_read(u8 *block) { (void)block; return 0; }
__attribute__((weak)) void wencry_verif_round(int alg, unsigned round, unsigned *state) { (void)alg; (void)round; (void)state; }
