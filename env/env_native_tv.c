/* translation-validation build: generated C runs natively; ctype comes from the real libc */
#include "ir2c_rt.h"
#include <ctype.h>
u8 *X___ctype_b_loc(void) { return (u8 *)__ctype_b_loc(); }
