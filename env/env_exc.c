/* C++ exception runtime for code generated with ir2c --exceptions.
   An exception in flight is the pair (ir2c_exc = identity of the thrown type's typeinfo object, ir2c_exc_obj = exception object).  The
   generated code tests ir2c_exc after every call that may throw: an `invoke` branches to its landing pad, a plain `call` returns to
   the caller (unwinding one frame).  A landing pad parks the exception in its frame, computes the selector of the first matching
   catch clause (ir2c_exc_match / ir2c_typeid), and `resume` puts it back in flight.  A harness asserts ir2c_exc == 0 when the entry
   point returns: an exception that escapes main is std::terminate.
   The std:: exception classes are identity tags with the standard hierarchy; classes defined in the translated module match by
   identity only (no user-defined hierarchy: none in wencry). */
#include "ir2c_rt.h"
#include <stdlib.h>
u8 *ir2c_exc, *ir2c_exc_obj, *ir2c_last_exc, *ir2c_last_obj;

#define TI(n) u8 *X_G_##n;
TI(_ZTISt9exception) TI(_ZTISt11logic_error) TI(_ZTISt13runtime_error) TI(_ZTISt16invalid_argument) TI(_ZTISt12out_of_range) TI(_ZTISt12length_error)
TI(_ZTISt12domain_error) TI(_ZTISt11range_error) TI(_ZTISt14overflow_error) TI(_ZTISt15underflow_error) TI(_ZTISt9bad_alloc) TI(_ZTISt8bad_cast)
TI(_ZTISt20bad_array_new_length) TI(_ZTISt17bad_function_call) TI(_ZTISt12system_error) TI(_ZTINSt10filesystem7__cxx1116filesystem_errorE) TI(_ZTINSt8ios_base7failureB5cxx11E)
#define A(n) ((u8 *)&X_G_##n)
static u8 *parent_of(u8 *t)
{
  if (t == A(_ZTISt16invalid_argument) || t == A(_ZTISt12out_of_range) || t == A(_ZTISt12length_error) || t == A(_ZTISt12domain_error)) return A(_ZTISt11logic_error);
  if (t == A(_ZTISt11range_error) || t == A(_ZTISt14overflow_error) || t == A(_ZTISt15underflow_error) || t == A(_ZTISt12system_error)) return A(_ZTISt13runtime_error);
  if (t == A(_ZTINSt10filesystem7__cxx1116filesystem_errorE) || t == A(_ZTINSt8ios_base7failureB5cxx11E)) return A(_ZTISt12system_error);
  if (t == A(_ZTISt20bad_array_new_length)) return A(_ZTISt9bad_alloc);
  if (t == A(_ZTISt11logic_error) || t == A(_ZTISt13runtime_error) || t == A(_ZTISt9bad_alloc) || t == A(_ZTISt8bad_cast) || t == A(_ZTISt17bad_function_call)) return A(_ZTISt9exception);
  return 0;
}
int ir2c_exc_match(u8 *thrown, u8 *clause)
{
  for (int k = 0; k < 5 && thrown; k++) { if (thrown == clause) return 1; thrown = parent_of(thrown); }
  return 0;
}
/* llvm.eh.typeid.for: a small positive integer per typeinfo object (first use registers it) */
#define TID_MAX 24
static u8 *tid_tab[TID_MAX]; static u32 tid_n;
u32 ir2c_typeid(u8 *ti)
{
  for (u32 i = 0; i < TID_MAX; i++) { if (i >= tid_n) break; if (tid_tab[i] == ti) return i + 2; }
  if (tid_n < TID_MAX) { tid_tab[tid_n++] = ti; return tid_n + 1; }
  return 0xffff;
}
static void raise_(u8 *type) { u8 *o = malloc(32); ir2c_exc_obj = o; ir2c_exc = type; }
u8 *X___cxa_allocate_exception(u64 n) { u8 *p = malloc(n ? n : 1); return p; }
void X___cxa_free_exception(u8 *p) { free(p); }
void X___cxa_throw(u8 *obj, u8 *tinfo, u8 *dtor) { (void)dtor; ir2c_exc_obj = obj; ir2c_exc = tinfo; }
u8 *X___cxa_begin_catch(u8 *obj) { return obj; }
void X___cxa_end_catch(void) {}
void X___cxa_rethrow(void) { ir2c_exc = ir2c_last_exc; ir2c_exc_obj = ir2c_last_obj; }
u8 *X___cxa_get_exception_ptr(u8 *obj) { return obj; }
/* libstdc++ throw helpers */
void X__ZSt24__throw_invalid_argumentPKc(u8 *m) { (void)m; raise_(A(_ZTISt16invalid_argument)); }
void X__ZSt20__throw_out_of_rangePKc(u8 *m) { (void)m; raise_(A(_ZTISt12out_of_range)); }
void X__ZSt24__throw_out_of_range_fmtPKcz(u8 *m, ...) { (void)m; raise_(A(_ZTISt12out_of_range)); }
void X__ZSt20__throw_length_errorPKc(u8 *m) { (void)m; raise_(A(_ZTISt12length_error)); }
void X__ZSt19__throw_logic_errorPKc(u8 *m) { (void)m; raise_(A(_ZTISt11logic_error)); }
void X__ZSt21__throw_runtime_errorPKc(u8 *m) { (void)m; raise_(A(_ZTISt13runtime_error)); }
void X__ZSt25__throw_bad_function_callv(void) { raise_(A(_ZTISt17bad_function_call)); }
void X__ZSt20__throw_system_errori(u32 e) { (void)e; raise_(A(_ZTISt12system_error)); }
void X__ZSt16__throw_bad_castv(void) { raise_(A(_ZTISt8bad_cast)); }
void X__ZSt17__throw_bad_allocv(void) { raise_(A(_ZTISt9bad_alloc)); }
void X__ZSt28__throw_bad_array_new_lengthv(void) { raise_(A(_ZTISt20bad_array_new_length)); }
