/* FILE model (C11 7.21 semantics for the calls the kernel makes). Not modelled: I/O errors, text mode. */
#include "env_file.h"
#include <stdlib.h>
#ifdef __CPROVER__
#define ENV_ASSERT(c, msg) __CPROVER_assert(c, msg)
#define ENV_ASSUME(c) __CPROVER_assume(c)
#else
#include <stdio.h>
#define ENV_ASSERT(c, msg) do { if (!(c)) { fprintf(stderr, "ENV_ASSERT failed: %s\n", msg); abort(); } } while (0)
#define ENV_ASSUME(c) do { if (!(c)) abort(); } while (0)
#endif
#ifdef MONITOR
void rs_access(u8 *p, u64 n, int w);
#define ENVF_ACCESS(p, n, w) rs_access(p, n, w)
#else
#define ENVF_ACCESS(p, n, w) ((void)0)
#endif
struct vfile {
  u8 *data; u64 len, cap, pos; u8 eof, writable, closed, getc_state;
  u32 nwrites, nreads, first_read_seq;
  u64 woff[ENVF_LOGCAP], wlen[ENVF_LOGCAP]; u32 wseq[ENVF_LOGCAP];
};
static u32 envf_seq;
static struct vfile *mk(u64 cap)
{
  struct vfile *f = malloc(sizeof(struct vfile)); ENV_ASSUME(f != 0);
  f->data = malloc(cap ? cap : 1); ENV_ASSUME(f->data != 0);
  f->len = 0; f->cap = cap; f->pos = 0; f->eof = 0; f->writable = 0; f->closed = 0; f->getc_state = 0; f->nwrites = 0; f->nreads = 0; f->first_read_seq = 0;
  return f;
}
u8 *envf_open_in(const u8 *data, u64 len) { struct vfile *f = mk(len); if (len) memcpy(f->data, data, len); f->len = len; return (u8 *)f; }
u8 *envf_open_out(u64 cap) { struct vfile *f = mk(cap); f->writable = 1; return (u8 *)f; }
u8 *envf_open_rw(const u8 *data, u64 len, u64 cap) { struct vfile *f = mk(cap); if (len) memcpy(f->data, data, len); f->len = len; f->writable = 1; return (u8 *)f; }
u64 envf_len(u8 *h) { return ((struct vfile *)h)->len; }
u8 envf_byte(u8 *h, u64 i) { struct vfile *f = (struct vfile *)h; return f->data[i]; }
u32 envf_nwrites(u8 *h) { return ((struct vfile *)h)->nwrites; }
u64 envf_write_off(u8 *h, u32 k) { return ((struct vfile *)h)->woff[k]; }
u64 envf_write_len(u8 *h, u32 k) { return ((struct vfile *)h)->wlen[k]; }
u32 envf_write_seq(u8 *h, u32 k) { return ((struct vfile *)h)->wseq[k]; }
u32 envf_nreads(u8 *h) { return ((struct vfile *)h)->nreads; }
u32 envf_first_read_seq(u8 *h) { return ((struct vfile *)h)->first_read_seq; }
u32 envf_closed(u8 *h) { return ((struct vfile *)h)->closed; }

u64 X_fread(u8 *dst, u64 size, u64 nmemb, u8 *h)
{
  struct vfile *f = (struct vfile *)h;
  ENV_ASSERT(f != 0, "fread on NULL FILE");
  ENV_ASSERT(!f->closed, "fread on closed FILE");
  ENV_ASSERT(size == 1, "FILE model: element size 1");
  u64 want = nmemb, avail = f->pos < f->len ? f->len - f->pos : 0;
  u64 n = want < avail ? want : avail;
  ENVF_ACCESS(dst, n, 1);
  if (n) memcpy(dst, f->data + f->pos, n);
  f->pos += n;
  if (n < want) f->eof = 1;
  ++envf_seq;
  if (f->nreads++ == 0) f->first_read_seq = envf_seq;
  return n;
}
u64 X_fwrite(u8 *src, u64 size, u64 nmemb, u8 *h)
{
  struct vfile *f = (struct vfile *)h;
  ENV_ASSERT(f != 0, "fwrite on NULL FILE");
  ENV_ASSERT(!f->closed, "fwrite on closed FILE");
  ENV_ASSERT(size == 1, "FILE model: element size 1");
  ENV_ASSERT(f->writable, "fwrite on a file opened read-only (input file must not be modified)");
  ENV_ASSERT(nmemb <= f->cap && f->pos <= f->cap - nmemb, "fwrite beyond the modelled file capacity (more output than the bound allows)");
  ENVF_ACCESS(src, nmemb, 0);
  if (nmemb) memcpy(f->data + f->pos, src, nmemb);
  ENV_ASSERT(f->nwrites < ENVF_LOGCAP, "write log capacity");
  f->woff[f->nwrites] = f->pos; f->wlen[f->nwrites] = nmemb; f->wseq[f->nwrites] = ++envf_seq; f->nwrites++;
  f->pos += nmemb;
  if (f->pos > f->len) f->len = f->pos;
  return nmemb;
}
u32 X_fseek(u8 *h, u64 off, u32 whence)
{
  struct vfile *f = (struct vfile *)h;
  ENV_ASSERT(f != 0, "fseek on NULL FILE");
  ENV_ASSERT(!f->closed, "fseek on closed FILE");
  if (whence == 0) f->pos = off; else if (whence == 1) f->pos += off; else f->pos = f->len + off;
  f->eof = 0;
  return 0;
}
u32 X_feof(u8 *h) { struct vfile *f = (struct vfile *)h; ENV_ASSERT(f != 0, "feof on NULL FILE"); return f->eof; }
u32 X_fgetc(u8 *h)
{
  struct vfile *f = (struct vfile *)h;
  ENV_ASSERT(f != 0 && !f->closed, "fgetc on NULL/closed FILE");
  ++envf_seq;
  if (f->nreads++ == 0) f->first_read_seq = envf_seq;
  if (f->pos < f->len) { f->getc_state = 1; return f->data[f->pos++]; }
  f->eof = 1; f->getc_state = 2; return 0xffffffffu;
}
u32 X_getc(u8 *h) { return X_fgetc(h); }
u32 X_ungetc(u32 c, u8 *h)
{
  struct vfile *f = (struct vfile *)h;
  ENV_ASSERT(f != 0 && !f->closed, "ungetc on NULL/closed FILE");
  /* decided by what the preceding fgetc returned (file state), not by the symbolic byte value, so that positions stay concrete;
     ungetc(EOF) leaves the stream unchanged (C11 7.21.7.10) */
  ENV_ASSERT(f->getc_state != 0, "FILE model: ungetc only directly after fgetc");
  if (f->getc_state == 2) { ENV_ASSERT(c == 0xffffffffu, "FILE model: ungetc only of the value just read"); f->getc_state = 0; return c; }
  ENV_ASSERT(f->pos > 0 && f->data[f->pos - 1] == (u8)c && c <= 255, "FILE model: ungetc only of the byte just read");
  f->pos--; f->eof = 0; f->getc_state = 0; return c;
}
u64 X_ftell(u8 *h) { return ((struct vfile *)h)->pos; }
u32 X_fclose(u8 *h) { struct vfile *f = (struct vfile *)h; ENV_ASSERT(f != 0, "fclose(NULL)"); ENV_ASSERT(!f->closed, "double fclose"); f->closed = 1; return 0; }
u32 X_fflush(u8 *h) { (void)h; return 0; }
u32 X_fputc(u32 c, u8 *h) { u8 b = (u8)c; return X_fwrite(&b, 1, 1, h) == 1 ? (u32)b : 0xffffffffu; }   /* clang turns fwrite(p,1,1,f) into fputc */
u32 X_putc(u32 c, u8 *h) { return X_fputc(c, h); }
u32 X_fprintf(u8 *h, u8 *fmt, ...) { (void)h; (void)fmt; return 0; }
u32 X_printf(u8 *fmt, ...) { (void)fmt; return 0; }
u32 X_puts(u8 *s) { (void)s; return 0; }
void envf_seek(u8 *h, u64 pos) { X_fseek(h, pos, 0); }
u64 envf_tell(u8 *h) { return ((struct vfile *)h)->pos; }
void envf_release(u8 *h) { (void)h; }
