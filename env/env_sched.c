#include "env_sched.h"
#ifdef __CPROVER__
#define ENV_ASSERT(c, msg) __CPROVER_assert(c, msg)
#define ENV_ASSUME(c) __CPROVER_assume(c)
#else
#include <stdio.h>
#include <stdlib.h>
#define ENV_ASSERT(c, msg) do { if (!(c)) { printf("REPLAY-FAIL: %s\n", msg); fflush(stdout); exit(1); } } while (0)
#define ENV_ASSUME(c) do { if (!(c)) { printf("REPLAY-ASSUME-VIOLATED: %s\n", #c); exit(3); } } while (0)
#endif
int rs_cur, rs_nthreads = 1;
u8 rs_started[RS_MAX_THREADS] = {1}, rs_done[RS_MAX_THREADS], rs_held[RS_MAX_THREADS], rs_wid[RS_MAX_THREADS];
u8 *rs_wmode[RS_MAX_THREADS];
u32 rs_spurious;                /* set by thorough harnesses: allow spurious wake-ups */

/* The scheduler's bookkeeping lives in ghost tables keyed by the address of the mutex / condition variable (not inside the real
   objects): addresses are concrete during symbolic execution, so enabledness stays concrete under a concrete schedule. */
#define RS_NOBJ 16
static u8 *mtx_key[RS_NOBJ]; static u32 mtx_owner[RS_NOBJ]; static u32 n_mtx;
static u8 *cv_key[RS_NOBJ]; static u32 cv_wait[RS_NOBJ]; static u32 n_cv;
static u32 mtx_slot(u8 *m)
{
  for (u32 i = 0; i < RS_NOBJ; i++) if (i < n_mtx && mtx_key[i] == m) return i;
  ENV_ASSERT(n_mtx < RS_NOBJ, "scheduler model: too many mutexes");
  mtx_key[n_mtx] = m; mtx_owner[n_mtx] = 0; return n_mtx++;
}
static u32 cv_slot(u8 *c)
{
  for (u32 i = 0; i < RS_NOBJ; i++) if (i < n_cv && cv_key[i] == c) return i;
  ENV_ASSERT(n_cv < RS_NOBJ, "scheduler model: too many condition variables");
  cv_key[n_cv] = c; cv_wait[n_cv] = 0; return n_cv++;
}
int rs_mutex_free(u8 *m) { return mtx_owner[mtx_slot(m)] == 0; }
u32 RS_pthread_mutex_lock(int tid, u8 *m) { u32 s = mtx_slot(m); ENV_ASSERT(mtx_owner[s] == 0, "scheduler: lock step executed while the mutex is held"); mtx_owner[s] = (u32)tid + 1; rs_held[tid]++; return 0; }
u32 RS_pthread_mutex_unlock(int tid, u8 *m) { u32 s = mtx_slot(m); ENV_ASSERT(mtx_owner[s] == (u32)tid + 1, "unlock of a mutex the thread does not hold"); mtx_owner[s] = 0; rs_held[tid]--; return 0; }
void RS__ZNSt18condition_variable4waitERSt11unique_lockISt5mutexE_begin(int tid, u8 *cv, u8 *lk)
{
  u8 *m = *(u8 **)lk;                                   /* unique_lock { mutex* device; bool owns; } */
  u32 s = mtx_slot(m);
  ENV_ASSERT(mtx_owner[s] == (u32)tid + 1, "condition wait without holding the lock");
  mtx_owner[s] = 0; rs_held[tid]--;                     /* atomically release and enqueue */
  cv_wait[cv_slot(cv)] |= 1u << tid;
}
int RS_ENABLED__ZNSt18condition_variable4waitERSt11unique_lockISt5mutexE_end(int tid, u8 *cv, u8 *lk)
{
  u8 *m = *(u8 **)lk;
  return ((cv_wait[cv_slot(cv)] & (1u << tid)) == 0 || rs_spurious) && mtx_owner[mtx_slot(m)] == 0;
}
void RS__ZNSt18condition_variable4waitERSt11unique_lockISt5mutexE_end(int tid, u8 *cv, u8 *lk)
{
  u8 *m = *(u8 **)lk;
  cv_wait[cv_slot(cv)] &= ~(1u << tid);
  mtx_owner[mtx_slot(m)] = (u32)tid + 1; rs_held[tid]++;
}
void RS_pthread_cond_clockwait_begin(int tid, u8 *c, u8 *m, u32 clk, u8 *ts)
{
  (void)clk; (void)ts;
  u32 s = mtx_slot(m);
  ENV_ASSERT(mtx_owner[s] == (u32)tid + 1, "timed condition wait without holding the lock");
  mtx_owner[s] = 0; rs_held[tid]--;
  cv_wait[cv_slot(c)] |= 1u << tid;
}
int RS_ENABLED_pthread_cond_clockwait_end(int tid, u8 *c, u8 *m, u32 clk, u8 *ts) { (void)tid; (void)c; (void)clk; (void)ts; return mtx_owner[mtx_slot(m)] == 0; }
u32 RS_pthread_cond_clockwait_end(int tid, u8 *c, u8 *m, u32 clk, u8 *ts)
{
  (void)clk; (void)ts;
  u32 timed_out = (cv_wait[cv_slot(c)] >> tid) & 1u;
  cv_wait[cv_slot(c)] &= ~(1u << tid);
  mtx_owner[mtx_slot(m)] = (u32)tid + 1; rs_held[tid]++;
  return timed_out ? 110u : 0u;                         /* ETIMEDOUT */
}
u32 X_pthread_cond_clockwait(u8 *c, u8 *m, u32 clk, u8 *ts) { ENV_ASSERT(0, "timed condition wait outside a step function"); return 0; }
u32 X_pthread_cond_timedwait(u8 *c, u8 *m, u8 *ts) { ENV_ASSERT(0, "timed condition wait outside a step function"); return 0; }
void X__ZNSt18condition_variable10notify_allEv(u8 *cv) { cv_wait[cv_slot(cv)] = 0; }
void X__ZNSt18condition_variableC1Ev(u8 *cv) { memset(cv, 0, 48); cv_wait[cv_slot(cv)] = 0; }
void X__ZNSt18condition_variableD1Ev(u8 *cv) { ENV_ASSERT(cv_wait[cv_slot(cv)] == 0, "condition variable destroyed while a thread waits on it"); }
/* lock operations reached from code that is not a step function would be invisible to the scheduler */
u32 X_pthread_mutex_lock(u8 *m) { ENV_ASSERT(0, "mutex operation outside a step function"); return 0; }
u32 X_pthread_mutex_unlock(u8 *m) { ENV_ASSERT(0, "mutex operation outside a step function"); return 0; }
void X__ZNSt18condition_variable4waitERSt11unique_lockISt5mutexE(u8 *cv, u8 *lk) { ENV_ASSERT(0, "condition wait outside a step function"); }

void vf_thread_decode(u8 *state, u8 *fn, u8 *id, u8 *m);
extern u8 _Z18multiruncrypt_filehR7Aesmode_addr;
void _Z18multiruncrypt_filehR7Aesmode_init(int tid, u8 id, u8 *mode);
void RS__ZNSt6thread15_M_start_threadESt10unique_ptrINS_6_StateESt14default_deleteIS1_EEPFvvE(int tid, u8 *thr, u8 *st, u8 *fn)
{
  u8 *state = *(u8 **)st;                               /* unique_ptr<_State> */
  u8 *f = 0, *mode = 0; u8 id = 0;
  ENV_ASSERT(state != 0, "thread started without a state object");
  vf_thread_decode(state, (u8 *)&f, &id, (u8 *)&mode);
  ENV_ASSERT(f == &_Z18multiruncrypt_filehR7Aesmode_addr, "worker thread entry point is multiruncrypt_file");
  ENV_ASSERT(rs_nthreads < RS_MAX_THREADS, "more threads than the scheduler model holds");
  int nt = rs_nthreads++;
  rs_started[nt] = 1; rs_wid[nt] = id; rs_wmode[nt] = mode;
  _Z18multiruncrypt_filehR7Aesmode_init(nt, id, mode);
  *(u64 *)thr = (u64)nt + 1;                            /* std::thread::_M_id: joinable */
  *(u8 **)st = 0;                                       /* ownership of the state passes to the new thread */
}
int RS_ENABLED__ZNSt6thread4joinEv(int tid, u8 *thr) { u64 id = *(u64 *)thr; return id == 0 || id > RS_MAX_THREADS || rs_done[id - 1]; }
void RS__ZNSt6thread4joinEv(int tid, u8 *thr)
{
  u64 id = *(u64 *)thr;
  ENV_ASSERT(id != 0 && id <= RS_MAX_THREADS, "join of a thread that is not joinable");
  *(u64 *)thr = 0;
}
void X__ZNSt6thread6_StateD2Ev(u8 *s) { (void)s; }
