/* iostream / formatting / clock / process externals: output formatting is not the subject of any property, so these are
   empty or return their stream argument.  exit() is recorded as a failure of the calling harness unless it expects it. */
#include "ir2c_rt.h"
#ifdef __CPROVER__
#define ENV_ASSERT(c, msg) __CPROVER_assert(c, msg)
#define ENV_ASSUME(c) __CPROVER_assume(c)
u64 nondet_u64(void);
#else
#include <stdio.h>
#include <stdlib.h>
#define ENV_ASSERT(c, msg) do { if (!(c)) { fprintf(stderr, "ENV_ASSERT failed: %s\n", msg); abort(); } } while (0)
#define ENV_ASSUME(c) do { if (!(c)) abort(); } while (0)
static u64 nondet_u64(void) { return 0; }
#endif
u8 *X__ZSt16__ostream_insertIcSt11char_traitsIcEERSt13basic_ostreamIT_T0_ES6_PKS3_l(u8 *os, u8 *s, u64 n) { (void)s; (void)n; return os; }
u8 *X__ZNSo5flushEv(u8 *os) { return os; }
u8 *X__ZNSo3putEc(u8 *os, u8 c) { (void)c; return os; }
u8 *X__ZNSo9_M_insertIdEERSoT_(u8 *os, double d) { (void)d; return os; }
u8 *X__ZNSo9_M_insertImEERSoT_(u8 *os, u64 d) { (void)d; return os; }
u8 *X__ZNSo9_M_insertIlEERSoT_(u8 *os, u64 d) { (void)d; return os; }
u8 *X__ZNSolsEi(u8 *os, u32 d) { (void)d; return os; }
void X__ZNSt8ios_base4InitC1Ev(u8 *p) { (void)p; }
void X__ZNSt8ios_base4InitD1Ev(u8 *p) { (void)p; }
void X__ZNKSt5ctypeIcE13_M_widen_initEv(u8 *p) { (void)p; }
void X__ZNSt9basic_iosIcSt11char_traitsIcEE5clearESt12_Ios_Iostate(u8 *p, u32 s) { (void)p; (void)s; }
u64 X__ZNSt6chrono3_V212system_clock3nowEv(void) { return nondet_u64(); }
#ifdef __CPROVER__
u64 X__ZNSt6chrono3_V212steady_clock3nowEv(void) { return nondet_u64(); }
#else
/* native model runs (schedule search): a clock that sometimes jumps far ahead, so that time-outs of timed waits do fire */
u64 X__ZNSt6chrono3_V212steady_clock3nowEv(void) { static u64 t = 1000; t += (rand() % 3 == 0) ? 60000000000ULL : 1000; return t; }
#endif
u32 X_vsnprintf(u8 *buf, u64 n, u8 *fmt, u8 *ap) { (void)fmt; (void)ap; if (n) buf[0] = 0; return 0; }
/* strlen: a harness may announce the (concrete) length of the next string so that symbolic CONTENT does not make the length symbolic;
   the announcement is checked as an assumption (string has no NUL before and a NUL at that index) */
u64 env_strlen_hint = ~(u64)0;
u8 *env_strlen_hint_ptr;
u64 X_strlen(u8 *s)
{
  if (env_strlen_hint != ~(u64)0 && s == env_strlen_hint_ptr) {
    u64 n = env_strlen_hint;
    for (u64 i = 0; i < n; i++) ENV_ASSUME(s[i] != 0);
    ENV_ASSUME(s[n] == 0);
    return n;
  }
  u64 n = 0; while (s[n]) n++; return n;
}
#ifndef ENV_NO_EXIT
u32 env_exit_called, env_exit_status;
void X_exit(u32 status) { env_exit_called = 1; env_exit_status = status; ENV_ASSERT(0, "exit() called"); ENV_ASSUME(0); }
#endif
u64 X_time(u8 *p) { (void)p; return nondet_u64(); }
void X_srand(u32 s) { (void)s; }
u32 X_rand(void) { return (u32)nondet_u64() & 0x7fffffff; }
/* __gnu_cxx::__to_xstring (used by std::to_string(double) in the timing printout): returns an empty string */
void X__ZN9__gnu_cxx12__to_xstringINSt7__cxx1112basic_stringIcSt11char_traitsIcESaIcEEEcEET_PFiPT0_mPKS8_P13__va_list_tagEmSB_z(u8 *sret, u8 *fn, u64 n, u8 *fmt, ...)
{
  (void)fn; (void)n; (void)fmt;
  *(u8 **)sret = sret + 16; *(u64 *)(sret + 8) = 0; sret[16] = 0;     /* SSO: {ptr -> local buf, size 0} */
}
/* <string.h> comparison functions that refactorings of the kernel may introduce */
u32 X_strncmp(u8 *a, u8 *b, u64 n) { for (u64 i = 0; i < n; i++) { if (a[i] != b[i]) return a[i] < b[i] ? 0xffffffffu : 1u; if (a[i] == 0) return 0; } return 0; }
u32 X_strcmp(u8 *a, u8 *b) { for (u64 i = 0;; i++) { if (a[i] != b[i]) return a[i] < b[i] ? 0xffffffffu : 1u; if (a[i] == 0) return 0; } }
u32 X_memcmp(u8 *a, u8 *b, u64 n) { for (u64 i = 0; i < n; i++) if (a[i] != b[i]) return a[i] < b[i] ? 0xffffffffu : 1u; return 0; }
u32 X_bcmp(u8 *a, u8 *b, u64 n) { return X_memcmp(a, b, n) != 0; }
u8 *X_strncpy(u8 *d, u8 *s, u64 n) { u64 i = 0; for (; i < n && s[i]; i++) d[i] = s[i]; for (; i < n; i++) d[i] = 0; return d; }
u8 *X_strcpy(u8 *d, u8 *s) { u64 i = 0; for (; s[i]; i++) d[i] = s[i]; d[i] = 0; return d; }
