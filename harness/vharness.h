/* common harness prelude: the same harness file is (a) checked by CBMC against the C generated from the real code's IR
   and (b) compiled natively and linked against a g++/ASan build of the REAL sources to replay counterexamples. */
#ifndef VHARNESS_H
#define VHARNESS_H
#include "ir2c_rt.h"
/* MODEL: the harness drives the generated C (under CBMC, or natively with -DMODEL_NATIVE for debugging / validating the model);
   otherwise it is linked against the real build (replay) */
#if defined(__CPROVER__) || defined(MODEL_NATIVE)
#define MODEL 1
#else
#define MODEL 0
#endif
#ifdef __CPROVER__
#define CHECK(c, msg) __CPROVER_assert((c), msg)
#define ASSUME(c) __CPROVER_assume(c)
#define LOAD_INPUTS() do { struct in_t in_; IN = in_; } while (0)
#ifdef WITNESS
#define WITNESS_POINT() __CPROVER_assert(0, "WITNESS reachability")
#else
#define WITNESS_POINT() ((void)0)
#endif
#define HARNESS_MAIN
#define IS_REPLAY 0
#else
#include <stdio.h>
#include <stdlib.h>
#define CHECK(c, msg) do { if (!(c)) { printf("REPLAY-FAIL: %s\n", msg); fflush(stdout); exit(1); } } while (0)
#define ASSUME(c) do { if (!(c)) { printf("REPLAY-ASSUME-VIOLATED: %s\n", #c); fflush(stdout); exit(3); } } while (0)
#ifndef REPLAY_ASSIGN
#define REPLAY_ASSIGN() ((void)0)
#endif
#define LOAD_INPUTS() do { memset(&IN, 0, sizeof IN); REPLAY_ASSIGN(); } while (0)
#define WITNESS_POINT() ((void)0)
#define HARNESS_MAIN int main(void) { harness(); printf("REPLAY-PASS\n"); return 0; }
#define IS_REPLAY (!MODEL)
#ifdef MODEL_NATIVE
#define __CPROVER_assert(c, m) CHECK(c, m)
#define __CPROVER_assume(c) ASSUME(c)
#endif
#endif
u8 *env_alloc(u64 n);   /* exact-size heap object (CBMC: bounds-checked; native: ASan-checked) */
#endif
