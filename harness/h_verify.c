/* Verify/decrypt gate obligations shared by C05, C06, C11, C12 (kernel unit, compression functions uninterpreted,
   the worker pipeline replaced by a recording stub: what is decided here is everything up to "pipeline started with these parameters").
   FLEN: input file length (concrete per query); contents, key symbolic.  THREADS: worker count given to runcrypt. */
#include "vharness.h"
#include "env_file.h"
#include "stubs_hash.h"
#ifndef THREADS
#define THREADS 1
#endif
#ifndef OUTCAP
#define OUTCAP 64
#endif
u8 *vf_rc_new(u8 *fin, u8 *out, u8 *key, u32 ctype, u32 htype, u8 threads);
u32 vf_rc_decrypt(u8 *r, u64 fsize);
u32 vf_rc_verify_op(u8 *r, u64 fsize);
u32 vf_rc_verify(u8 *r, u64 fsize);
u8 vf_rc_hdr_ctype(u8 *r); u8 vf_rc_hdr_htype(u8 *r);
u32 vf_bg_size(void); u8 *vf_bg_fin(void); u8 *vf_bg_fout(void); u32 vf_bg_ispadding(void);
u8 vf_mc_threads(u8 *m); u8 *vf_mode_key(u8 *m); void vf_mode_getiv(u8 *m, u8 *out16);
u32 vf_bg_instance_null(void); u32 vf_bg_live(void);
void X_wencry_verif_round(u32 a, u32 r, u8 *s) {}

/* ---- key schedule stub (target of ir2c --replace for aeshandle::keyhandle's constructor): the round keys play no role before the
   pipeline runs; only the raw key is kept so that "every stream is keyed with the caller's key" stays checkable */
u32 vf_keyhandle_initkey_off(void);
void stub_keyhandle(u8 *self, u8 *key) { memcpy(self + vf_keyhandle_initkey_off(), key, 16); }
/* ---- recording stub for multicry_master::run_multicry (target of ir2c --replace) */
struct pipe_rec { u32 started; u32 threads; u8 modes_ok; u8 iv[16][16]; u8 key[16][16]; u64 fin_pos; u8 *fin, *fout; u32 ispadding; u32 size; };
static struct pipe_rec PR[2];
static u32 cur;                 /* which of the (up to two) runs is executing */
void stub_run_multicry(u8 *self, u8 *modes, u8 *printload)
{
  struct pipe_rec *p = &PR[cur];
  p->started++;
  p->threads = vf_mc_threads(self);
  p->modes_ok = 1;
  for (u32 i = 0; i < p->threads && i < 16; i++) {
    u8 *m = ((u8 **)modes)[i];
    CHECK(m != 0, "every worker gets a cipher stream object (unknown cipher mode must be rejected before the pipeline starts)");
    if (m == 0) { p->modes_ok = 0; continue; }
    vf_mode_getiv(m, p->iv[i]);
    memcpy(p->key[i], vf_mode_key(m), 16);
  }
  p->fin = vf_bg_fin(); p->fout = vf_bg_fout(); p->ispadding = vf_bg_ispadding(); p->size = vf_bg_size();
  p->fin_pos = envf_tell(p->fin);
}
static const u8 MAGIC[8] = {0xC3, 0xA5, 0xC3, 0xA5, 0xC3, 0xA5, 0xC3, 0xA5};
struct in_t { u8 key[16]; u8 key2[16]; u8 file[FLEN + 1]; u8 alt; u8 sel; u8 diff[32]; } IN;
static u8 FILEB[FLEN + 1];     /* the input file actually used: IN.file, optionally with magic / a VALID tag patched in (sel bits) so that
                                  counterexamples that need an authentic tag replay on the real build, where the hash is the real one */

/* specification of acceptance: magic, modes in range, length, tag = HMAC_htype(key, file[48..EOF)) */
static void tag_of(const u8 *file, u32 flen, const u8 *key, u8 ht, u8 *ref)
{
#if defined(HTFIX) && HTFIX < 3
  sref_hmac(HTFIX, key, file + 48, flen - 48, ref);
#elif defined(HTFIX)
  memset(ref, 0, 32);                           /* invalid hash mode: never accepted */
#else
  if (ht == 0) sref_hmac(0, key, file + 48, flen - 48, ref);
  else if (ht == 1) sref_hmac(1, key, file + 48, flen - 48, ref);
  else sref_hmac(2, key, file + 48, flen - 48, ref);
#endif
}
static void build_file(void)
{
  memcpy(FILEB, IN.file, FLEN);
  if ((IN.sel & 2) && FLEN >= 8) memcpy(FILEB, MAGIC, 8);
#ifdef HTFIX
  if (FLEN > 9) FILEB[9] = HTFIX;               /* one query per hash-mode value (concrete: buffer sizes and dispatch stay concrete) */
#endif
  if (FLEN >= 74 && FILEB[9] <= 2) {
    u8 ref[32];
    tag_of(FILEB, FLEN, IN.key, FILEB[9], ref);
    if (IN.sel & 1) { for (int i = 0; i < 32; i++) if (i < ref_hash_len(FILEB[9])) FILEB[10 + i] = ref[i]; }
    else if (IN.sel & 4) { for (int i = 0; i < 32; i++) if (i < ref_hash_len(FILEB[9])) FILEB[10 + i] = (u8)(ref[i] ^ IN.diff[i]); }   /* valid tag xor an arbitrary difference pattern: a counterexample about HOW tags are compared means the same on the real hash */
#ifdef __CPROVER__
    else {                                      /* A-MAC: a tag field that was not computed with the key does not happen to be the valid tag */
      int eq = 1;
      for (int i = 0; i < 32; i++) if (i < ref_hash_len(FILEB[9]) && FILEB[10 + i] != ref[i]) eq = 0;
      ASSUME(!eq);
    }
#endif
  }
}
static int spec_accepts(const u8 *file, u32 flen, const u8 *key)
{
  if (flen < 8) return 0;
  for (int i = 0; i < 8; i++) if (file[i] != MAGIC[i]) return 0;
  if (flen < 74) return 0;                       /* the 64-byte tag area must be readable: 10 + 64 */
  u8 ct = file[8], ht = file[9];
  if (ct > 4 || ht > 2) return 0;
  u8 ref[32];
  tag_of(file, flen, key, ht, ref);
  int eq = 1;
  for (int i = 0; i < 32; i++) if (i < ref_hash_len(ht) && file[10 + i] != ref[i]) eq = 0;
  return eq;
}

#if defined(H_GATE)
#if !MODEL
u32 vf_rc_verify_op(u8 *r, u64 fsize); u32 vf_rc_decrypt(u8 *r, u64 fsize);
/* native replay of a tag-comparison counterexample (sel & 4): the wrong verdict may depend on a property of the tag VALUE (e.g. a zero
   byte) that the uninterpreted hash chose freely; search the 65536 keys differing in the last two bytes for one whose real tag shows it */
static int gate_disagrees(void)
{
  build_file();
  u8 key[16];
  memcpy(key, IN.key, 16);
  u8 *fin = envf_open_in(FILEB, FLEN), *out = envf_open_out(OUTCAP);
  u8 *r = vf_rc_new(fin, out, key, (u32)-1, (u32)-1, THREADS);
#ifdef OP_VERIFY
  u32 ok = vf_rc_verify_op(r, FLEN);
#else
  u32 ok = vf_rc_decrypt(r, FLEN);
#endif
  return (ok != 0) != (spec_accepts(FILEB, FLEN, IN.key) != 0);
}
#endif
/* C11/C06/C05-L1,L2,L4: decrypt (or verify) of ANY byte string: memory safe (CBMC checks every access in the real code),
   terminates (unwinding assertions), accepts exactly per spec, a rejecting run writes nothing and never starts the pipeline,
   both handles are closed, process-global state is back to initial */
void harness(void)
{
  LOAD_INPUTS();
#if !MODEL
  if (IN.sel & 4) {
    u8 k14 = IN.key[14], k15 = IN.key[15];
    for (u32 v = 1; v < 65536; v++) {
      IN.key[14] = (u8)(k14 ^ (v >> 8)); IN.key[15] = (u8)(k15 ^ v);
      CHECK(!gate_disagrees(), "success iff magic, mode bytes in range, length >= 74 and tag == HMAC(key, file[48..EOF))");
    }
    IN.key[14] = k14; IN.key[15] = k15;
  }
#endif
  build_file();    /* hash-mode byte: one query per valid value (concrete, so buffer sizes are concrete), one for all invalid values */
  u8 key[16];
  memcpy(key, IN.key, 16);
  u8 *fin = envf_open_in(FILEB, FLEN);
  u8 *out = envf_open_out(OUTCAP);
  u8 *r = vf_rc_new(fin, out, key, (u32)-1, (u32)-1, THREADS);
  cur = 0;
#ifdef OP_VERIFY
  u32 ok = vf_rc_verify_op(r, FLEN);
  if (!IS_REPLAY) CHECK(PR[0].started == 0, "verification never starts the cipher pipeline");
  CHECK(envf_nwrites(out) == 0, "verification produces no output");
#else
  u32 ok = vf_rc_decrypt(r, FLEN);
#endif
  int spec = spec_accepts(FILEB, FLEN, IN.key);
  CHECK((ok != 0) == (spec != 0), "success iff magic, mode bytes in range, length >= 74 and tag == HMAC(key, file[48..EOF))");
  if (!ok) {
    CHECK(envf_nwrites(out) == 0, "a failing decryption writes no bytes to its output");
    if (!IS_REPLAY) CHECK(PR[0].started == 0, "a failing decryption never starts the cipher pipeline");
  } else if (!IS_REPLAY) {
#ifndef OP_VERIFY
    CHECK(PR[0].started == 1, "accepted file: pipeline started exactly once");
    CHECK(PR[0].threads == THREADS && PR[0].size == THREADS, "pipeline configured with the caller's worker count");
    CHECK(PR[0].fin == fin && PR[0].fout == out && PR[0].ispadding == 0, "pipeline reads the input, writes the output, decrypt direction");
    CHECK(PR[0].fin_pos == 48 + 20 * THREADS, "decryption starts after header and IV table");
    for (u32 i = 0; i < THREADS; i++) for (int k = 0; k < 16; k++) CHECK(PR[0].key[i][k] == IN.key[k], "every cipher stream is keyed with the caller's key (same key as the MAC)");
#endif
  }
  CHECK(envf_closed(fin) && envf_closed(out), "both files are closed when the operation returns");
  if (!ok) CHECK(vf_bg_live() == 0 && vf_bg_instance_null(), "a rejected file leaves the process-global pipeline state untouched (no instance, live counter 0)");
  /* key reaches the MAC: the first hashed block is (key || 0^48) xor ipad - all 128 key bits */
  if (ghost_len >= 64) for (int i = 0; i < 64; i++) CHECK(GHOST[i] == (u8)((i < 16 ? IN.key[i] : 0) ^ 0x36), "HMAC inner pad block carries all 16 key bytes");
  WITNESS_POINT();
}
#elif defined(H_SEEK)
/* C01: decryption positions the input after header and IV table for EVERY worker count 1..16 (prepare_IV + prepare_AES on a
   runcrypt with THREADS workers; no hashing involved) and builds THREADS streams from the first stored IV */
u8 *vf_rc_prepare_iv_file(u8 *r); u8 *vf_rc_prepare_aes(u8 *r, u8 ctype, u8 *iv, u32 enc);
void harness(void)
{
  LOAD_INPUTS();
  u8 key[16];
  memcpy(key, IN.key, 16);
  memcpy(FILEB, IN.file, FLEN);
  u8 *fin = envf_open_in(FILEB, FLEN);
  u8 *out = envf_open_out(OUTCAP);
  u8 *r = vf_rc_new(fin, out, key, (u32)-1, (u32)-1, THREADS);
  u8 *iv = vf_rc_prepare_iv_file(r);
  for (u32 i = 0; i < 20 * THREADS; i++) CHECK(iv[i] == FILEB[48 + i], "IV table read from offset 48, 20 bytes per worker");
  u8 ct = IN.alt % 5;
  u8 *modes = vf_rc_prepare_aes(r, ct, iv, 0);
  CHECK(envf_tell(fin) == 48 + 20 * THREADS, "decryption starts after header and IV table (48 + 20T)");
  CHECK(vf_bg_size() == THREADS && vf_bg_fin() == fin && vf_bg_fout() == out && vf_bg_ispadding() == 0, "pipeline configured for T workers, decrypt direction");
  for (u32 i = 0; i < THREADS; i++) {
    u8 *m = ((u8 **)modes)[i], reg[16];
    CHECK(m != 0, "one stream object per worker");
    if (m) { vf_mode_getiv(m, reg); for (int k = 0; k < 16; k++) CHECK(reg[k] == FILEB[48 + k], "streams start from the first stored IV"); }
  }
  WITNESS_POINT();
}
#elif defined(H_STREAMS)
/* C03: the T stream objects that prepare_AES hands to the workers are pairwise DIFFERENT objects, for every cipher mode and both directions.
   Every runcry() writes its own object (mode register, AES working state aeshandle::w - the frame condition of the C10 step obligations)
   outside any critical section; one object driven by two workers is a data race whose outcome depends on the interleaving. */
u8 *vf_rc_prepare_aes(u8 *r, u8 ctype, u8 *iv, u32 enc);
void harness(void)
{
  LOAD_INPUTS();
  u8 key[16];
  memcpy(key, IN.key, 16);
  memcpy(FILEB, IN.file, FLEN);
  u8 *fin = envf_open_in(FILEB, FLEN);
  u8 *out = envf_open_out(OUTCAP);
  u8 *r = vf_rc_new(fin, out, key, (u32)-1, (u32)-1, THREADS);
  u8 ct = IN.alt % 5;
  u8 *modes = vf_rc_prepare_aes(r, ct, FILEB, ENCDIR);
  for (u32 i = 0; i < THREADS; i++) {
    CHECK(((u8 **)modes)[i] != 0, "one stream object per worker");
    for (u32 j = 0; j < i; j++) CHECK(((u8 **)modes)[i] != ((u8 **)modes)[j], "no two workers are given the same stream object (runcry mutates its object without synchronisation)");
  }
  WITNESS_POINT();
}
#elif defined(H_VERIFY_EQ_DECRYPT)
/* C12: verification succeeds exactly when decryption of the same bytes with the same key succeeds */
void harness(void)
{
  LOAD_INPUTS();
  u8 key[16];
  memcpy(key, IN.key, 16);
  build_file();
  u8 *f1 = envf_open_in(FILEB, FLEN), *f2 = envf_open_in(FILEB, FLEN);
  u8 *o1 = envf_open_out(OUTCAP), *o2 = envf_open_out(OUTCAP);
  u8 *r1 = vf_rc_new(f1, o1, key, (u32)-1, (u32)-1, THREADS), *r2 = vf_rc_new(f2, o2, key, (u32)-1, (u32)-1, THREADS);
  cur = 0; u32 v = vf_rc_verify_op(r1, FLEN);
  cur = 1; u32 d = vf_rc_decrypt(r2, FLEN);
  CHECK((v != 0) == (d != 0), "verify succeeds iff decrypt succeeds");
  CHECK(envf_nwrites(o1) == 0 && (IS_REPLAY || PR[0].started == 0), "verify writes nothing and starts no pipeline");
  WITNESS_POINT();
}
#elif defined(H_NONINTERFERENCE)
/* C05-L3: change exactly one header byte (offset OFF): if both files are accepted, the pipeline is started with identical parameters
   (same cipher mode, same IVs, same text position) - i.e. decryption delivers the same plaintext */
void harness(void)
{
  LOAD_INPUTS();
  u8 key[16], f2b[FLEN + 1];
  memcpy(key, IN.key, 16);
  build_file();
  memcpy(f2b, FILEB, FLEN);
#ifdef ALTFIX
  u8 alt = ALTFIX;            /* replacement value concrete (used for the hash-mode byte, so that the second run stays concrete too) */
#else
  u8 alt = IN.alt;
#endif
  ASSUME(alt != FILEB[OFF]);
  f2b[OFF] = alt;
  u8 *f1 = envf_open_in(FILEB, FLEN), *f2 = envf_open_in(f2b, FLEN);
  u8 *o1 = envf_open_out(OUTCAP), *o2 = envf_open_out(OUTCAP);
  u8 *r1 = vf_rc_new(f1, o1, key, (u32)-1, (u32)-1, THREADS), *r2 = vf_rc_new(f2, o2, key, (u32)-1, (u32)-1, THREADS);
  cur = 0; u32 a = vf_rc_decrypt(r1, FLEN);
  u8 c1 = vf_rc_hdr_ctype(r1);
  cur = 1; u32 b = vf_rc_decrypt(r2, FLEN);
  u8 c2 = vf_rc_hdr_ctype(r2);
  if (a && b && IS_REPLAY) {
    CHECK(envf_len(o1) == envf_len(o2), "both accepted => same plaintext length");
    for (u64 i = 0; i < envf_len(o1) && i < envf_len(o2); i++) CHECK(envf_byte(o1, i) == envf_byte(o2, i), "both accepted => same plaintext");
  }
  if (a && b && !IS_REPLAY) {
    CHECK(c1 == c2, "both accepted => same cipher mode");
    CHECK(PR[0].fin_pos == PR[1].fin_pos && PR[0].threads == PR[1].threads, "both accepted => same text position / workers");
    for (u32 i = 0; i < THREADS; i++) for (int k = 0; k < 16; k++) CHECK(PR[0].iv[i][k] == PR[1].iv[i][k], "both accepted => same stream IVs");
  }
  WITNESS_POINT();
}
#else
#error "select a harness"
#endif
HARNESS_MAIN
