/* Every schedule of the protocol model (model_proto.h leaves, skeletons unrolled into steps): C03 exactly-once / order / stream ownership,
   C04 no deadlock / termination, C14 exclusive hand-over.  The schedule is the symbolic vector IN.sched[0..K).
   Granularity: a critical section is one step; each unsynchronised read (cmpstate, haslive) is a step; buffer accesses are steps
   guarded by the ownership monitor.  The refinement obligations (h_refine.c) tie every step to the real code.
   Parameters: THREADS, BSZ (blocks per chunk), NFULL, LASTBLK, K, SPURIOUS (allow spurious wake-ups). */
#include "vharness.h"
#include "model_proto.h"
#ifndef THREADS
#define THREADS 2
#endif
#ifndef BSZ
#define BSZ 1
#endif
#ifndef NFULL
#define NFULL 1
#endif
#ifndef LASTBLK
#define LASTBLK 1
#endif
#ifndef K
#define K 64
#endif
#ifndef SPURIOUS
#define SPURIOUS 0
#endif
#define NT (THREADS + 1)
#define NCHUNK (NFULL + 1)
struct in_t { u8 sched[K]; } IN;

enum { W_CMP1, W_GET1, W_SETUPD, W_WAIT, W_WAITING, W_CMP2, W_GET2, W_DONE };
enum { I_WAIT, I_WAITING, I_CMP, I_XFER, I_SETRDY, I_HASLIVE, I_ADV, I_CMPINV, I_DONE };
static u32 state[THREADS]; static u8 live;
static u32 total[THREADS], now[THREADS]; static int chunk_of[THREADS];
static u8 w_pc[THREADS], w_waiting[THREADS];
static u8 i_pc, i_waiting, i_r, i_ls, over; static u32 turn;
static u32 g_loaded, g_exported;
static u8 marks[NCHUNK][BSZ], mark_stream[NCHUNK][BSZ]; static u16 mark_seq[NCHUNK][BSZ], seqno[THREADS];

static void get_and_run(int i, u8 next_if_null)
{
  CHECK(state[i] == M_READY, "a worker touches only its own chunk buffer and only between READY and its hand-back");
  if (now[i] < total[i]) {
    u32 b = now[i]++;
    int c = chunk_of[i];
    CHECK(c >= 0 && b < BSZ, "block belongs to the chunk the buffer holds");
    if (c >= 0 && c < NCHUNK && b < BSZ) { marks[c][b]++; mark_stream[c][b] = (u8)i; mark_seq[c][b] = seqno[i]; }
    seqno[i]++;
    w_pc[i] = W_CMP1;
  } else w_pc[i] = next_if_null;
}
static u32 spurious_left = SPURIOUS;       /* total budget of spurious wake-ups (unbounded ones need fairness, outside the claim) */
static int w_enabled(int i) { return w_pc[i] != W_DONE && (w_pc[i] != W_WAITING || !w_waiting[i] || spurious_left > 0); }
static void w_step(int i)
{
  switch (w_pc[i]) {
  case W_CMP1: w_pc[i] = state[i] == M_READY ? W_GET1 : W_WAIT; break;
  case W_GET1: get_and_run(i, W_SETUPD); break;
  case W_SETUPD: if (m_set_update(&state[i])) i_waiting = (turn == (u32)i) ? 0 : i_waiting; w_pc[i] = W_WAIT; break;   /* notify cv_update[i]: the I/O thread waits on cv_update[turn] */
  case W_WAIT: if (m_wait_ready_ok(state[i])) w_pc[i] = W_CMP2; else { w_waiting[i] = 1; w_pc[i] = W_WAITING; } break;
  case W_WAITING: if (w_waiting[i]) spurious_left--; w_waiting[i] = 0; w_pc[i] = W_WAIT; break;
  case W_CMP2: w_pc[i] = state[i] == M_READY ? W_GET2 : W_DONE; break;
  case W_GET2: get_and_run(i, W_DONE); break;
  default: break;
  }
}
static int i_enabled(void) { return i_pc != I_DONE && (i_pc != I_WAITING || !i_waiting || spurious_left > 0); }
static void i_step(void)
{
  switch (i_pc) {
  case I_WAIT: if (m_wait_update_ok(state[turn])) i_pc = I_CMP; else { i_waiting = 1; i_pc = I_WAITING; } break;
  case I_WAITING: if (i_waiting) spurious_left--; i_waiting = 0; i_pc = I_WAIT; break;
  case I_CMP: i_r = state[turn] == M_UPDATING; i_pc = I_XFER; break;
  case I_XFER: {
    u32 t = turn;
    if (i_r || !over) CHECK(state[t] == M_EMPTY || state[t] == M_UPDATING, "I/O thread touches a chunk buffer only while no worker owns it (state EMPTY/UPDATING)");
    if (i_r) {                                                         /* export_buffer */
      int c = chunk_of[t];
      CHECK(c >= 0, "exported buffer holds a chunk");
      CHECK((u32)c == g_exported, "chunks are written out in load (file) order, none dropped or duplicated");
      u32 want = c < NFULL ? BSZ : LASTBLK;
      CHECK(now[t] == want, "every block of the chunk was handed to its worker before the chunk is written out");
      if (c >= 0 && c < NCHUNK) for (u32 b = 0; b < BSZ; b++) if (b < want) {
        CHECK(marks[c][b] == 1, "every block transformed exactly once before it is written out");
        CHECK(mark_stream[c][b] == (u8)((u32)c % THREADS), "chunk j is transformed by stream j mod T");
        CHECK(mark_seq[c][b] == (u16)(((u32)c / THREADS) * BSZ + b), "each stream sees its blocks in file order");
      }
      chunk_of[t] = -1; g_exported++;
    }
    i_ls = M_NODATA;
    if (!over) {                                                       /* load_buffer (load contract: FULL^NFULL then FINAL with >= 1 block) */
      u32 c = g_loaded;
      if (c < NFULL) { total[t] = BSZ; now[t] = 0; chunk_of[t] = (int)c; g_loaded++; i_ls = M_FULL; }
      else if (c == NFULL) { total[t] = LASTBLK; now[t] = 0; chunk_of[t] = (int)c; g_loaded++; i_ls = M_FINAL; }
      else CHECK(0, "no load after the final chunk");
    }
    over = i_ls != M_FULL;
    i_pc = I_SETRDY; break; }
  case I_SETRDY: m_set_ready(&state[turn], &live, i_ls != M_NODATA); w_waiting[turn] = 0; i_pc = I_HASLIVE; break;   /* notify cv_ready[turn] */
  case I_HASLIVE: i_pc = live != 0 ? I_ADV : I_DONE; break;
  case I_ADV: turn = (turn + 1) % THREADS; i_pc = I_CMPINV; break;
  case I_CMPINV: i_pc = state[turn] == M_INV ? I_ADV : I_WAIT; break;
  default: break;
  }
}
void rs_access(u8 *p, u64 n, int w) {}
void harness(void)
{
  LOAD_INPUTS();
  for (int i = 0; i < THREADS; i++) { state[i] = M_EMPTY; chunk_of[i] = -1; w_pc[i] = W_CMP1; }
  live = THREADS; i_pc = I_WAIT; turn = 0; over = 0;
  int done = 0;
  for (int s = 0; s < K; s++) {
    done = i_pc == I_DONE; for (int i = 0; i < THREADS; i++) done &= w_pc[i] == W_DONE;
    if (done) break;
    int any = i_enabled(); for (int i = 0; i < THREADS; i++) any |= w_enabled(i);
    CHECK(any, "deadlock: an unfinished thread exists and no thread can run (lost wake-up / missing hand-over)");
    if (!any) break;
    u8 t = IN.sched[s];
    ASSUME(t < NT && (t == 0 ? i_enabled() : w_enabled(t - 1)));
    if (t == 0) i_step(); else w_step(t - 1);
  }
  done = i_pc == I_DONE; for (int i = 0; i < THREADS; i++) done &= w_pc[i] == W_DONE;
  CHECK(done, "unwinding assertion: schedule bound K too small for this configuration");
  if (done) {
    CHECK(g_loaded == NCHUNK && g_exported == NCHUNK, "every chunk was loaded and written out");
    for (int i = 0; i < THREADS; i++) CHECK(state[i] == M_INV, "every buffer ends INV");
    CHECK(live == 0, "live-buffer counter back to 0");
  }
  WITNESS_POINT();
}
HARNESS_MAIN
