/* Compression-function stub for file-level harnesses ("SUM_COMPRESS"): the three real compression functions are redirected
   (ir2c --replace) to uf_compress, which (i) appends the block to a ghost stream, (ii) replaces the chaining value by an
   UNINTERPRETED function of (chaining value, block), (iii) advances the bit counter by 512 as the real one does (C07 K-finaladd).
   The reference below hashes with the same uninterpreted function, so digests agree iff the same block sequence was hashed
   from the standard initial value.  C07 proves the real compression/padding equal to the standards. */
#ifndef STUBS_HASH_H
#define STUBS_HASH_H
#include "ref_hash.h"
u64 vf_hash_get_total(u8 *h); void vf_hash_set_total(u8 *h, u64 v);
u8 *vf_hash_words(u8 *h, u8 *n);
#ifndef GHOST_MAX
#define GHOST_MAX 1024
#endif
static u8 GHOST[GHOST_MAX];      /* every block handed to a compression function, in order */
static u32 ghost_len;
#if MODEL
#ifdef MODEL_NATIVE
static u32 __CPROVER_uninterpreted_cmpf(u32 k, u32 a, u32 b, u64 b0, u64 b1, u64 b2, u64 b3, u64 b4, u64 b5, u64 b6, u64 b7)
{ u64 x = 0x9e3779b97f4a7c15ULL * (k + 1) ^ a ^ ((u64)b << 32); u64 w[8] = {b0, b1, b2, b3, b4, b5, b6, b7};
  for (int i = 0; i < 8; i++) { x ^= w[i]; x *= 0xff51afd7ed558ccdULL; x ^= x >> 29; } return (u32)(x ^ (x >> 32)); }
#else
u32 __CPROVER_uninterpreted_cmpf(u32, u32, u32, u64, u64, u64, u64, u64, u64, u64, u64);
#endif
static void uf_step(u32 *h, u32 n, const u8 *block)
{
  const u64 *b = (const u64 *)block;           /* unaligned word reads of the 64 block bytes */
  u32 s0 = h[0], s1 = h[1];
  for (u32 k = 0; k < n; k++) h[k] = __CPROVER_uninterpreted_cmpf(k, s0, s1, b[0], b[1], b[2], b[3], b[4], b[5], b[6], b[7]);
}
void uf_compress(u8 *self, u8 *block)
{
  u32 n;
  u32 *h = (u32 *)vf_hash_words(self, (u8 *)&n);
  __CPROVER_assert(ghost_len + 64 <= GHOST_MAX, "ghost stream capacity (more data hashed than the bound allows)");
  if (ghost_len + 64 <= GHOST_MAX) for (int i = 0; i < 64; i++) GHOST[ghost_len + i] = block[i];
  ghost_len += 64;
  uf_step(h, n, block);
  vf_hash_set_total(self, vf_hash_get_total(self) + 512);
}
#define REF_COMPRESS(alg, h, blk) uf_step(h, ref_hash_words(alg), blk)
#else
#define REF_COMPRESS(alg, h, blk) ref_hash_compress(alg, h, blk)      /* native replay: the real code hashes for real */
#endif
/* reference digest / HMAC over the (possibly uninterpreted) compression function */
static void sref_hash(int alg, const u8 *msg, u32 len, u8 *out)
{
  u32 h[8]; u8 pad[128];
  ref_hash_init(alg, h);
  u32 i = 0;
  for (; i + 64 <= len; i += 64) REF_COMPRESS(alg, h, msg + i);
  unsigned np = ref_hash_pad(alg, msg + i, len, pad);
  for (unsigned j = 0; j < np; j += 64) REF_COMPRESS(alg, h, pad + j);
  ref_hash_output(alg, h, out);
}
#ifndef SREF_MSGMAX
#define SREF_MSGMAX 512
#endif
static void sref_hmac(int alg, const u8 *key16, const u8 *msg, u32 len, u8 *out)
{
  static u8 ib[64 + SREF_MSGMAX]; u8 ob[64 + 32], ih[32];
  for (int i = 0; i < 64; i++) { u8 k = i < 16 ? key16[i] : 0; ib[i] = k ^ 0x36; ob[i] = k ^ 0x5c; }
  for (u32 i = 0; i < len; i++) ib[64 + i] = msg[i];
  sref_hash(alg, ib, 64 + len, ih);
  for (int i = 0; i < ref_hash_len(alg); i++) ob[64 + i] = ih[i];
  sref_hash(alg, ob, 64 + ref_hash_len(alg), out);
}
#endif
