/* C03 / C04 / C14 under EVERY schedule: the synchronisation protocol of the real code (run_buffer, buffer_update, turn_iter,
   require_buffer_entry, wait_ready/wait_update/set_ready/set_update, multiruncrypt_file, get_entry, cmpstate, haslive) as step
   functions, scheduled by the symbolic vector IN.sched[].  Data movement is abstracted: load_buffer/export_buffer are stubs that
   keep a ghost record of which chunk a buffer holds (the real ones are decided sequentially in the C01/C02 end-to-end obligations
   and in the load-contract obligation), the cipher is a marker on the ghost record, progress output is empty.
   Parameters: THREADS, NFULL (full chunks before the final one), LASTBLK (blocks in the final chunk, 1..BUF_SZ), ENC, K. */
#include "vharness.h"
#include "env_sched.h"
#ifndef THREADS
#define THREADS 2
#endif
#ifndef NFULL
#define NFULL 1
#endif
#ifndef LASTBLK
#define LASTBLK 1
#endif
#ifndef ENC
#define ENC 1
#endif
#ifndef K
#define K 60
#endif
#define NT (THREADS + 1)
#define NCHUNK (NFULL + 1)
#ifndef BSZ
#define BSZ 1            /* must equal the unit's WENCRY_VERIF_BUF_SZ (asserted) */
#endif

void vf_proto_setup_init(int tid, u8 threads, u32 pad); int vf_proto_setup_step(int tid);
void vf_proto_io_init(int tid); int vf_proto_io_step(int tid); int vf_proto_io_enabled(int tid);
void vf_proto_worker_init(int tid, u8 id, u8 *m); int vf_proto_worker_step(int tid); int vf_proto_worker_enabled(int tid);
void vf_proto_teardown_init(int tid); int vf_proto_teardown_step(int tid);
u8 *vf_markmode_new(void);
u8 *vf_bg_buflst(void); u32 vf_bg_state(u32 i); u32 vf_bg_nbuf(void); u32 vf_iobuffer_size(void); u32 vf_buf_sz(void);
u32 vf_bg_instance_null(void); u32 vf_bg_live(void);
void vf_iob_set(u8 *b, u32 total, u32 now, u32 tail, u32 isfinal);
u32 vf_iob_total(u8 *b); u32 vf_iob_now(u8 *b); u32 vf_iob_isfinal(u8 *b); u32 vf_iob_block_off(void);

struct in_t { u8 sched[K]; } IN;
static u8 *MODES[THREADS];
static u32 mon_on, in_mon;
/* ghost record */
static u32 g_loaded, g_exported;                 /* chunks loaded / exported so far */
static int chunk_of[THREADS];                    /* which chunk buffer i holds (-1: none) */
static u8 marks[NCHUNK][BSZ];                    /* how often block b of chunk c was transformed */
static u8 mark_stream[NCHUNK][BSZ];
static u16 mark_seq[NCHUNK][BSZ];
static u16 seqno[THREADS];

static int buf_index(u8 *p, u64 *off_in)
{
  u8 *base = vf_bg_buflst();
  if (base == 0) return -1;
#ifdef __CPROVER__
  if (__CPROVER_POINTER_OBJECT(p) != __CPROVER_POINTER_OBJECT(base)) return -1;
  u64 off = (u64)__CPROVER_POINTER_OFFSET(p) - (u64)__CPROVER_POINTER_OFFSET(base);
#else
  u64 off = (u64)(p - base);
  if (p < base || off >= (u64)vf_bg_nbuf() * vf_iobuffer_size()) return -1;
#endif
  if (off_in) *off_in = off % vf_iobuffer_size();
  return (int)(off / vf_iobuffer_size());
}
/* ---- ownership monitor (C14) */
void rs_access(u8 *p, u64 n, int w)
{
  if (!mon_on || in_mon || n == 0) return;
  in_mon = 1;
  int idx = buf_index(p, 0);
  if (idx >= 0) {
    u32 st = vf_bg_state((u32)idx);
    if (rs_cur == 0) CHECK(st == 0 || st == 1, "I/O thread touches a chunk buffer only while no worker owns it (state EMPTY/UPDATING)");
    else CHECK(idx == rs_wid[rs_cur] && st == 2, "a worker touches only its own chunk buffer and only between READY and its hand-back");
  }
  in_mon = 0;
}
/* ---- stubs (targets of ir2c --replace) */
u32 stub_load(u8 *self, u8 *fin, u8 pad)
{
  rs_access(self, vf_iobuffer_size(), 1);
  int idx = buf_index(self, 0);
  CHECK(idx >= 0 && idx < THREADS, "load into one of the T chunk buffers");
  CHECK(rs_cur == 0, "only the I/O thread loads");
  u32 c = g_loaded;
  if (c < NFULL) { vf_iob_set(self, BSZ, 0, 0, 0); if (idx >= 0) chunk_of[idx] = (int)c; g_loaded++; return 0; }          /* FULL */
  if (c == NFULL) { vf_iob_set(self, LASTBLK, 0, 0, 1); if (idx >= 0) chunk_of[idx] = (int)c; g_loaded++; return 1; }     /* FINAL (load contract: at least one block) */
  CHECK(0, "no load after the final chunk (over flag)");
  vf_iob_set(self, 0, 0, 0, 0);
  return 2;                                                                                                                /* NODATA */
}
void stub_export(u8 *self, u8 *fout, u8 pad)
{
  rs_access(self, vf_iobuffer_size(), 0);
  int idx = buf_index(self, 0);
  CHECK(rs_cur == 0, "only the I/O thread exports");
  if (idx < 0 || idx >= THREADS) { CHECK(0, "export of one of the T chunk buffers"); return; }
  int c = chunk_of[idx];
  CHECK(c >= 0, "exported buffer holds a chunk");
  CHECK((u32)c == g_exported, "chunks are written out in load (file) order, none dropped or duplicated");
  u32 want = c < NFULL ? BSZ : LASTBLK;
  CHECK(vf_iob_now(self) == want, "every block of the chunk was handed to its worker before the chunk is written out");
  if (c >= 0 && c < NCHUNK) for (u32 b = 0; b < BSZ; b++) if (b < want) {
    CHECK(marks[c][b] == 1, "every block transformed exactly once before it is written out");
    CHECK(mark_stream[c][b] == (u8)((u32)c % THREADS), "chunk j is transformed by stream j mod T");
    CHECK(mark_seq[c][b] == (u16)(((u32)c / THREADS) * BSZ + b), "each stream sees its blocks in file order");
  }
  chunk_of[idx] = -1;
  g_exported++;
}
void stub_printload(u8 *fn, u8 *str, u64 n) { (void)fn; (void)str; (void)n; }
static void empty_string(u8 *s) { *(u8 **)s = s + 16; *(u64 *)(s + 8) = 0; s[16] = 0; }
void stub_to_string(u8 *sret, u32 v) { (void)v; empty_string(sret); }
void stub_strplus(u8 *sret, u8 *lhs, u8 *rhs) { (void)lhs; (void)rhs; empty_string(sret); }
void X_vf_mark(u8 *self, u8 *block)
{
  rs_access(block, 16, 1);
  u64 off = 0;
  int idx = buf_index(block, &off);
  CHECK(idx >= 0, "cipher stream applied to a block inside a chunk buffer");
  int s = -1;
  for (int j = 0; j < THREADS; j++) if (MODES[j] == self) s = j;
  CHECK(s >= 0 && rs_cur >= 1 && rs_wid[rs_cur] == (u8)s, "stream j is driven by worker j only");
  if (idx < 0 || s < 0) return;
  int c = chunk_of[idx];
  u32 b = (u32)((off - vf_iob_block_off()) / 16);
  CHECK(c >= 0 && b < BSZ, "block belongs to the chunk the buffer holds");
  if (c >= 0 && c < NCHUNK && b < BSZ) { marks[c][b]++; mark_stream[c][b] = (u8)s; mark_seq[c][b] = seqno[s]; }
  seqno[s]++;
}
/* ---- scheduler */
static int t_enabled(int t)
{
  if (!rs_started[t] || rs_done[t]) return 0;
  return t == 0 ? vf_proto_io_enabled(0) : vf_proto_worker_enabled(t);
}
static void t_step(int t)
{
  rs_cur = t;
  int st = t == 0 ? vf_proto_io_step(0) : vf_proto_worker_step(t);
  if (st == RS_DONE) rs_done[t] = 1;
}
static int steps_used;
static int all_done(void) { for (int t = 0; t < NT; t++) if (!rs_done[t]) return 0; return 1; }

void harness(void)
{
  LOAD_INPUTS();
  CHECK(vf_buf_sz() == BSZ, "harness BSZ equals the unit's chunk size");
  for (int j = 0; j < THREADS; j++) { MODES[j] = vf_markmode_new(); chunk_of[j] = -1; }
  /* single-threaded prologue: prepare_AES's set_buffergroup */
  rs_cur = 0;
  vf_proto_setup_init(0, THREADS, ENC);
  for (int s = 0; s < 8; s++) if (vf_proto_setup_step(0) == RS_DONE) break;
  /* concurrent phase: I/O thread + T workers, all runnable */
  vf_proto_io_init(0);
  for (int t = 1; t < NT; t++) { rs_started[t] = 1; rs_wid[t] = (u8)(t - 1); vf_proto_worker_init(t, (u8)(t - 1), MODES[t - 1]); }
  rs_nthreads = NT;
  mon_on = 1;
  for (int s = 0; s < K; s++) {
    if (all_done()) break;
    int any = 0;
    for (int t = 0; t < NT; t++) any |= t_enabled(t);
    CHECK(any, "deadlock: an unfinished thread exists and no thread can run (lost wake-up / missing hand-over)");
    if (!any) break;
#ifdef SCHED_CANON
    int t = 0; for (int j = NT - 1; j >= 0; j--) if (t_enabled(j)) t = j;
#elif defined(SCHED_RANDOM)
    int t; do { t = rand() % NT; } while (!t_enabled(t));
    steps_used = s + 1;
#else
    u8 t = IN.sched[s];
    ASSUME(t < NT && t_enabled(t));
#endif
    t_step(t);
  }
  mon_on = 0;
  CHECK(all_done(), "unwinding assertion: schedule bound K too small for this configuration");
  if (all_done()) {
    CHECK(g_loaded == NCHUNK && g_exported == NCHUNK, "every chunk was loaded and written out");
    for (int j = 0; j < THREADS; j++) CHECK(vf_bg_state((u32)j) == 3, "every buffer ends INV");
    CHECK(vf_bg_live() == 0, "live-buffer counter back to 0");
    rs_cur = 0;
    vf_proto_teardown_init(0);
    for (int s = 0; s < 8; s++) if (vf_proto_teardown_step(0) == RS_DONE) break;
    CHECK(vf_bg_instance_null(), "instance deleted");
  }
  WITNESS_POINT();
#ifdef SCHED_RANDOM
  printf("STEPS %d\n", steps_used);
#endif
}
#ifdef SCHED_RANDOM
int main(int argc, char **argv) { srand(argc > 1 ? atoi(argv[1]) : 1); harness(); printf("REPLAY-PASS\n"); return 0; }
#else
HARNESS_MAIN
#endif
