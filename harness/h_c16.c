/* C16 - base64 codec is RFC 4648; key validator accepts exactly 16-byte keys.
   One obligation per -DH_*; MAXLEN is the stated bound on the symbolic length. */
#include "vharness.h"
#include "ref_b64.h"
#ifndef MAXLEN
#define MAXLEN 28
#endif

u32 vf_b64_encode(u8 *in, u32 len, u8 *out);
u32 vf_b64_decode(u8 *in, u32 len, u8 *out);
u32 vf_b64_valid(u8 *in, u32 len);
u32 vf_is_b64(u8 c);
u8 vf_b64_tab(u32 i);
u8 vf_hex_tab(u32 i);

#if defined(H_ENC)
/* encode(x) == RFC 4648 for every x with |x| == LEN (one query per length; contents symbolic);
   writes exactly 4*ceil(len/3)+1 bytes into an exact-size object */
#define OLEN (4 * ((LEN + 2) / 3))
struct in_t { u8 data[LEN + 1]; } IN;
void harness(void)
{
  LOAD_INPUTS();
  u8 *in = env_alloc(LEN);          /* exact-size objects: any read/write outside is reported by CBMC / ASan */
  for (u32 i = 0; i < LEN; i++) in[i] = IN.data[i];
  u8 *out = env_alloc(OLEN + 1);
  u8 refo[OLEN + 4];
  u32 rl = ref_b64_encode(IN.data, LEN, refo);
  CHECK(rl == OLEN, "reference length");
  u32 r = vf_b64_encode(in, LEN, out);
  CHECK(r != 0, "encode reports success");
  for (u32 i = 0; i <= OLEN; i++) CHECK(out[i] == refo[i], "encoded byte equals RFC 4648 reference (incl. '=' padding and NUL)");
  WITNESS_POINT();
}
#elif defined(H_ROUNDTRIP)
/* decode(encode(x)) == x and decode writes exactly |x| bytes */
#define OLEN (4 * ((LEN + 2) / 3))
struct in_t { u8 data[LEN + 1]; } IN;
void harness(void)
{
  LOAD_INPUTS();
  u8 *enc = env_alloc(OLEN + 1);
  vf_b64_encode(IN.data, LEN, enc);
  u8 *dec = env_alloc(LEN);
  u32 r = vf_b64_decode(enc, OLEN, dec);
  CHECK(r != 0, "decode reports success");
  for (u32 i = 0; i < LEN; i++) CHECK(dec[i] == IN.data[i], "decode(encode(x)) == x");
  WITNESS_POINT();
}
#elif defined(H_DECODE_REF)
/* decode of any canonical-form base64 text (GROUPS quanta of alphabet symbols, PAD trailing '=') equals the reference decoder */
#define NCH (4 * GROUPS)
#define OUTLEN (3 * GROUPS - PAD)
struct in_t { u8 s[NCH + 1]; } IN;
void harness(void)
{
  LOAD_INPUTS();
  for (u32 i = 0; i < NCH; i++) {
    if (i >= NCH - PAD) ASSUME(IN.s[i] == '=');
    else ASSUME(ref_b64_val(IN.s[i]) >= 0);
  }
  u8 *text = env_alloc(NCH);
  for (u32 i = 0; i < NCH; i++) text[i] = IN.s[i];
  u8 *dec = env_alloc(OUTLEN);
  u32 r = vf_b64_decode(text, NCH, dec);
  CHECK(r != 0, "decode reports success");
  for (u32 g = 0; g < GROUPS; g++) {
    u32 v = 0;
    for (u32 k = 0; k < 4; k++) { int x = ref_b64_val(IN.s[4 * g + k]); v = (v << 6) | (u32)(x < 0 ? 0 : x); }
    for (u32 k = 0; k < 3; k++) if (3 * g + k < OUTLEN) CHECK(dec[3 * g + k] == (u8)(v >> (8 * (2 - k))), "decoded byte equals RFC 4648 reference");
  }
  WITNESS_POINT();
}
#elif defined(H_VALID_SOUND)
/* accepted  =>  exactly the shape of a 16-byte key: length 24, 22 alphabet symbols, "==";
   and decoding an accepted string with the fixed length 24 stays inside a 16-byte buffer */
struct in_t { u32 len; u8 s[MAXLEN + 1]; } IN;
void harness(void)
{
  LOAD_INPUTS();
  ASSUME(IN.len <= MAXLEN);
  for (u32 i = 0; i < IN.len; i++) ASSUME(IN.s[i] != 0);   /* callers pass strlen() */
  u32 alloc = IN.len + 1 > 24 ? IN.len + 1 : 24;            /* argv strings: reading 24 bytes must be possible only if accepted => len==24 */
  u8 *text = env_alloc(IN.len + 1);
  for (u32 i = 0; i < IN.len; i++) text[i] = IN.s[i];
  text[IN.len] = 0;
  u32 ok = vf_b64_valid(text, IN.len);
  if (ok) {
    CHECK(IN.len == 24, "accepted key text has 24 characters");
    for (u32 i = 0; i < 22 && i < IN.len; i++) CHECK(ref_b64_val(IN.s[i]) >= 0, "accepted key text: first 22 characters are base64 symbols");
    CHECK(IN.len > 23 && IN.s[22] == '=' && IN.s[23] == '=', "accepted key text ends in exactly two '=' (16 bytes)");
    u8 *key = env_alloc(16);                               /* new u8_t[16] in getArgsKey/getInputKey */
    vf_b64_decode(text, 24, key);                          /* the call made by getArgsKey: any write past 16 bytes is a bounds violation */
  }
  WITNESS_POINT();
}
#elif defined(H_VALID_COMPLETE)
/* every 24-character encoding of a 16-byte value is accepted and decodes to that value (the printed key restores the key) */
struct in_t { u8 key[16]; } IN;
void harness(void)
{
  LOAD_INPUTS();
  u8 *text = env_alloc(25);
  vf_b64_encode(IN.key, 16, text);            /* what printkey() prints */
  u32 n = 0;
  while (n < 25 && text[n]) n++;
  CHECK(n == 24, "printed key has 24 characters");
  CHECK(vf_b64_valid(text, n) != 0, "printed key is accepted by the validator");
  u8 *key = env_alloc(16);
  vf_b64_decode(text, 24, key);
  for (u32 i = 0; i < 16; i++) CHECK(key[i] == IN.key[i], "accepted printed key decodes to the same 16 bytes");
  WITNESS_POINT();
}
#elif defined(H_TABLES)
/* symbol tables are the RFC alphabet and its inverse; is_base64 accepts exactly the alphabet */
struct in_t { u8 c; u8 i; } IN;
void harness(void)
{
  LOAD_INPUTS();
  ASSUME(IN.i < 64);
  CHECK(vf_b64_tab(IN.i) == (u8)ref_b64_alphabet[IN.i], "b64_tab[i] is the RFC 4648 alphabet");
  CHECK(vf_hex_tab(vf_b64_tab(IN.i)) == IN.i, "hex_tab inverts b64_tab");
  CHECK((vf_is_b64(IN.c) != 0) == (ref_b64_val(IN.c) >= 0), "is_base64(c) iff c is in the alphabet");
  if (IN.c < 128 && ref_b64_val(IN.c) >= 0) CHECK(vf_hex_tab(IN.c) == (u8)ref_b64_val(IN.c), "hex_tab[c] is the symbol value");
  WITNESS_POINT();
}
#else
#error "select a harness with -DH_*"
#endif
HARNESS_MAIN
