/* Pipeline under every schedule (C03 output independence / exactly-once, C04 termination, C14 exclusive hand-over, C15 global state).
   The REAL thread bodies (run_multicry incl. thread creation/join, run_buffer, buffer_update, require_buffer_entry, wait/set functions,
   multiruncrypt_file) run as step functions; the schedule is the symbolic vector IN.sched[] (SCHED_FREE) or the canonical
   "run until blocked" order (SCHED_CANON).  The cipher is replaced by a marker so that "which stream transformed which block, how often,
   in which order" is visible in the output.
   Parameters: THREADS (T), DLEN (input length in bytes), ENC (1 encrypt side: pad, 0 decrypt side: strip), K (schedule length bound);
   the chunk size comes from the unit (-DWENCRY_VERIF_BUF_SZ). */
#include "vharness.h"
#include "env_file.h"
#include "env_sched.h"
#ifndef THREADS
#define THREADS 2
#endif
#ifndef K
#define K 60
#endif
#define NT (THREADS + 1)

void vf_pipe_run_init(int tid, u8 *fin, u8 *fout, u32 ispadding, u8 threads, u8 *modes);
int vf_pipe_run_step(int tid);
int vf_pipe_run_enabled(int tid);
int _Z18multiruncrypt_filehR7Aesmode_step(int tid);
int _Z18multiruncrypt_filehR7Aesmode_enabled(int tid);
u8 *vf_mode_make(u8 *key, u8 *iv, u32 isenc, u8 type);
u8 *vf_bg_buflst(void); u32 vf_bg_state(u32 i); u32 vf_bg_nbuf(void); u32 vf_iobuffer_size(void); u32 vf_buf_sz(void);
u32 vf_bg_instance_null(void); u32 vf_bg_live(void);
void X_wencry_verif_round(u32 a, u32 r, u8 *s) {}
void uf_compress(u8 *a, u8 *b) {}
void stub_keyhandle(u8 *self, u8 *key) { (void)self; (void)key; }   /* round keys are irrelevant: the cipher is the marker */

#define BLKS_IN ((DLEN + 15) / 16)
#define OUTMAX (DLEN + 32)
#ifdef SECOND_LEN
_Static_assert(SECOND_LEN <= DLEN, "the second pipeline reuses the first input buffer");
#endif
struct in_t { u8 data[DLEN + 1]; u8 sched[K]; } IN;
#if defined(SECOND_T) && SECOND_T > THREADS
#define MAXT SECOND_T
#else
#define MAXT THREADS
#endif
static u8 *MODES[MAXT];
static u16 seqno[MAXT];
static u32 mon_on, in_mon;
u32 rs_violations;

/* ---- ownership monitor (C14): called for every load/store/mem* of the translated code and for the FILE model's buffer copies */
void rs_access(u8 *p, u64 n, int w)
{
  if (!mon_on || in_mon || n == 0) return;
  { int live = 0; for (int t = 1; t < RS_MAX_THREADS; t++) if (rs_started[t] && !rs_done[t]) live = 1; if (!live && rs_nthreads > 1) return; }   /* workers gone: no concurrency left */
  in_mon = 1;
  u8 *base = vf_bg_buflst();
  if (base != 0) {
#ifdef __CPROVER__
    int same = __CPROVER_POINTER_OBJECT(p) == __CPROVER_POINTER_OBJECT(base);
    u64 off = (u64)__CPROVER_POINTER_OFFSET(p) - (u64)__CPROVER_POINTER_OFFSET(base);
#else
    u64 off = (u64)(p - base);
    int same = p >= base && off < (u64)vf_bg_nbuf() * vf_iobuffer_size();
#endif
    if (same) {
      u32 idx = (u32)(off / vf_iobuffer_size());
      u32 st = vf_bg_state(idx);
      if (rs_cur == 0) CHECK(st == 0 || st == 1, "I/O thread touches a chunk buffer only while no worker owns it (state EMPTY/UPDATING)");
      else CHECK(idx == rs_wid[rs_cur] && st == 2, "a worker touches only its own chunk buffer and only between READY and its hand-back");
    }
  }
  in_mon = 0;
}
/* ---- marker cipher (target of ir2c --replace for every Aesmode::runcry) */
void mark_runcry(u8 *self, u8 *block)
{
  rs_access(block, 16, 1);
  int s = -1;
  for (int j = 0; j < MAXT; j++) if (MODES[j] == self) s = j;
  CHECK(s >= 0, "block transformed by one of the T stream objects");
  if (s < 0) return;
  CHECK(rs_cur >= 1 && rs_wid[rs_cur] == (u8)s, "stream j is driven by worker j only");
  block[0] = (u8)(block[0] + 1);
  block[3] = (u8)s;
  block[4] = (u8)seqno[s]; block[5] = (u8)(seqno[s] >> 8);
  seqno[s]++;
}
static int t_enabled(int t)
{
  if (!rs_started[t] || rs_done[t]) return 0;
  return t == 0 ? vf_pipe_run_enabled(0) : _Z18multiruncrypt_filehR7Aesmode_enabled(t);
}
static void t_step(int t)
{
  rs_cur = t;
  int st = t == 0 ? vf_pipe_run_step(0) : _Z18multiruncrypt_filehR7Aesmode_step(t);
  if (st == RS_DONE) rs_done[t] = 1;
}
static int all_done(void)
{
  if (!rs_done[0]) return 0;
  for (int t = 1; t < RS_MAX_THREADS; t++) if (rs_started[t] && !rs_done[t]) return 0;
  return 1;
}

/* one complete pipeline run with `threads` workers over data[0..dlen); all checks inside */
static u32 CUR_T;
static void one_run(u32 threads, const u8 *data, u32 dlen)
{
  u8 key[16] = {0}, iv[20] = {0};
  u32 bsz = vf_buf_sz();
  static u8 exp[OUTMAX];
  u32 explen;
  CUR_T = threads;
#if ENC
  u32 nblk = dlen / 16 + 1;
  for (u32 i = 0; i < 16 * nblk; i++) exp[i] = i < dlen ? data[i] : (u8)(16 - dlen % 16);
  explen = 16 * nblk;
#else
  u32 nblk = dlen / 16;
  ASSUME(dlen % 16 == 0 && dlen >= 16);
  ASSUME(data[dlen - 1] >= 1 && data[dlen - 1] <= 16);    /* ciphertext body produced by encryption: last plaintext byte is the pad length */
  for (u32 i = 0; i < dlen; i++) exp[i] = data[i];
  explen = dlen - data[dlen - 1];
#endif
  for (u32 b = 0; b < nblk; b++) {
    u32 chunk = b / bsz, s = chunk % threads, sq = (chunk / threads) * bsz + b % bsz;
    exp[16 * b] = (u8)(exp[16 * b] + 1); exp[16 * b + 3] = (u8)s; exp[16 * b + 4] = (u8)sq; exp[16 * b + 5] = (u8)(sq >> 8);
  }
  u8 *fin = envf_open_in(data, dlen);
  u8 *fout = envf_open_out(OUTMAX);
  u8 **modes = (u8 **)env_alloc(sizeof(u8 *) * MAXT);
  for (u32 j = 0; j < threads; j++) { MODES[j] = vf_mode_make(key, iv, ENC, 0); modes[j] = MODES[j]; seqno[j] = 0; }
  for (int t = 0; t < RS_MAX_THREADS; t++) { rs_started[t] = t == 0; rs_done[t] = 0; rs_held[t] = 0; }
  rs_nthreads = 1;
  mon_on = 1;
  vf_pipe_run_init(0, fin, fout, ENC, (u8)threads, (u8 *)modes);
  int c = 0;
  for (int s = 0; s < K; s++) {
    if (all_done()) break;
#if defined(SCHED_CANON)
    int found = 0;
    for (u32 j = 0; j < threads + 1 && !found; j++) { int t = (int)((c + j) % (threads + 1)); if (t_enabled(t)) { c = t; found = 1; } }
    CHECK(found, "deadlock: an unfinished thread exists and no thread can run (lost wake-up / missing hand-over)");
    if (!found) break;
    t_step(c);
#else
    int any = 0;
    for (u32 t = 0; t < threads + 1; t++) any |= t_enabled((int)t);
    CHECK(any, "deadlock: an unfinished thread exists and no thread can run (lost wake-up / missing hand-over)");
    if (!any) break;
    u8 t = IN.sched[s];
    ASSUME(t < threads + 1 && t_enabled(t));
    t_step(t);
#endif
  }
  mon_on = 0;
  CHECK(all_done(), "unwinding assertion: schedule bound K too small for this configuration");
  if (all_done()) {
    CHECK((u32)rs_nthreads == threads + 1, "exactly T worker threads were created");
    CHECK(envf_len(fout) == explen, "output length (every block exported once; pad added / stripped)");
    for (u32 i = 0; i < explen && i < envf_len(fout); i++)
      CHECK(envf_byte(fout, i) == exp[i], "output byte: block transformed exactly once, by the stream that owns its chunk, in stream order, at its own offset");
    CHECK(vf_bg_instance_null() && vf_bg_live() == 0, "process-global pipeline state back to initial (instance deleted, live counter 0)");
    CHECK(envf_nwrites(fin) == 0, "input not written");
  }
}
void harness(void)
{
  LOAD_INPUTS();
#ifdef SMOKE_FILL
  for (u32 i = 0; i < DLEN; i++) IN.data[i] = (u8)(i * 7 + 1);
  if (DLEN >= 16) IN.data[DLEN - 1] = 5;
#endif
  one_run(THREADS, IN.data, DLEN);
#ifdef SECOND_T
  /* C15: a second pipeline in the same process image, with a different worker count, behaves as in a fresh process */
  one_run(SECOND_T, IN.data, SECOND_LEN);
#endif
  WITNESS_POINT();
}
HARNESS_MAIN
