/* C17 - command line: no crash on any option vector; exit 0 iff the requested operation succeeded; otherwise diagnostic + non-zero.
   Real code: main (renamed), get_v_opt, parseOpts, Settings, check_ctype/htype, getArgsKey, printkey, base64.  Environment:
   getopt_long delivers a SYMBOLIC sequence of up to NOPT options drawn from a menu of (option, argument) pairs that covers the
   value classes of C17 (valid / missing / unopenable / over-long paths, well- and ill-formed keys, in- and out-of-range modes,
   unknown option); fopen/sprintf/strtol/filesystem are modelled; the kernel (runcrypt) is a stub that checks its preconditions and
   returns a symbolic result. */
#include "vharness.h"
#include "env_file.h"
#include <stdarg.h>
#ifndef NOPT
#define NOPT 4
#endif
u32 vf_main(u32 argc, u8 *argv);
u8 *vf_fout(void); u32 vf_fout_size(void); u32 vf_rc_resultprint_off(void);
void global_ctors(void);
extern u8 *X_G_optarg; extern u32 X_G_optind;
struct in_t { u8 opts[NOPT]; u8 nopts; u8 opres; u64 fsize; } IN;

static char LONGPATH[131];
static const char KEY_OK[] = "QUJDREVGR0hJSktMTU5PUA==", KEY_BAD1[] = "QUJDREVGR0hJSktMTU5PUFE=", KEY_BAD2[] = "short", KEY_BAD3[] = "QUJDREVGR0hJSktMTU5PU!==";
struct mopt { int c; const char *arg; };
#define NMENU 21
static struct mopt MENU[NMENU] = {
  {'e', 0}, {'d', 0}, {'v', 0},
  {'i', "in.bin"}, {'i', "nofile"}, {'i', LONGPATH},
  {'o', "out.bin"}, {'o', "/nodir/out"},
  {'k', KEY_OK}, {'k', KEY_BAD1}, {'k', KEY_BAD2}, {'k', KEY_BAD3},
  {1, "2"}, {1, "7"}, {2, "1"}, {2, "9"},
  {'n', 0}, {'V', 0}, {'h', 0}, {'?', 0}, {1, "-3"},
};
static u32 g_pos, diag, exit_called;
/* ---- environment */
u32 X_getopt_long(u32 argc, u8 *argv, u8 *so, u8 *lo, u8 *idx)
{
  if (g_pos >= IN.nopts || g_pos >= NOPT) return 0xffffffffu;
  u8 k = IN.opts[g_pos++];
  X_G_optarg = (u8 *)MENU[k].arg;
  X_G_optind++;
  return (u32)MENU[k].c;
}
static u8 *IN_FILE, *OUT_FILE; static u32 opened_in, opened_out;
u8 *X_fopen(u8 *name, u8 *mode)
{
  if (name == (u8 *)MENU[4].arg || name == (u8 *)MENU[7].arg) return 0;                 /* does not exist / directory missing */
  if (mode[0] == 'r') { opened_in++; return IN_FILE; }
  opened_out++; return OUT_FILE;
}
u32 X_sprintf(u8 *dst, u8 *fmt, ...)
{
  /* the only format used: "%s.wenc" - byte exact, no bound (as sprintf) */
  va_list ap; va_start(ap, fmt);
  const u8 *s = va_arg(ap, const u8 *);
  va_end(ap);
  CHECK(fmt[0] == '%' && fmt[1] == 's', "sprintf model: format \"%s.wenc\"");
  u32 n = 0;
  for (; n < 200 && s[n]; n++) dst[n] = s[n];
  for (u32 j = 2; j < 16 && fmt[j]; j++) dst[n++] = fmt[j];
  dst[n] = 0;
  return n;
}
u32 X_snprintf(u8 *dst, u64 cap, u8 *fmt, ...)
{
  va_list ap; va_start(ap, fmt);
  const u8 *s = va_arg(ap, const u8 *);
  va_end(ap);
  u32 n = 0, w = 0;
  for (; n < 200 && s[n]; n++) { if (w + 1 < cap) dst[w++] = s[n]; }
  u32 tot = n;
  for (u32 j = 2; j < 16 && fmt[j]; j++) { if (w + 1 < cap) dst[w++] = fmt[j]; tot++; }
  if (cap) dst[w] = 0;
  return tot;
}
u64 X_strtol(u8 *s, u8 *end, u32 base)
{
  u32 i = 0; int neg = 0; u64 v = 0;
  if (s[i] == '-') { neg = 1; i++; }
  for (; i < 12 && s[i] >= '0' && s[i] <= '9'; i++) v = v * 10 + (u64)(s[i] - '0');
  return neg ? (u64)(0 - v) : v;
}
u64 X__ZNSt10filesystem9file_sizeERKNS_7__cxx114pathE(u8 *p) { return IN.fsize; }
void X__ZNSt10filesystem7__cxx114path14_M_split_cmptsEv(u8 *p) {}
void X__ZNSt10filesystem7__cxx114path5_ListC1Ev(u8 *p) { *(u8 **)p = 0; }
void X__ZNKSt10filesystem7__cxx114path5_List13_Impl_deleterclEPNS2_5_ImplE(u8 *d, u8 *i) {}
void X__ZSt28__throw_bad_array_new_lengthv(void) { CHECK(0, "throws bad_array_new_length"); ASSUME(0); }
/* strlog(std::string, std::string, char): diagnostics are counted, not formatted */
void stub_strlog(u8 *s1, u8 *s2, u8 fill) { diag++; }
void X_exit(u32 status)
{
  exit_called = 1;
  CHECK(status != 0, "exit() is only used for failures");
  ASSUME(0);                                   /* process ends here: a diagnostic was printed (fprintf to stderr precedes every exit in Settings) */
}
/* ---- kernel stub: preconditions of runcrypt and the three operations */
static u8 *rc_fin, *rc_out, *rc_key; static u32 rc_made, rc_ops;
void stub_rc_ctor(u8 *self, u8 *fin, u8 *out, u8 *key, u32 settings, u8 threads)
{
  rc_made++; rc_fin = fin; rc_out = out; rc_key = key;
  *(u8 **)(self + vf_rc_resultprint_off()) = 0;          /* ~runcrypt deletes it */
  u8 ct = (u8)settings, ht = (u8)(settings >> 8);
  CHECK((ct <= 4 || ct == 0xff) && (ht <= 2 || ht == 0xff), "kernel receives in-range (or unset) mode numbers");
}
u8 stub_rc_encrypt(u8 *self, u64 fsize, u8 *seed)
{
  rc_ops++;
  if (rc_fin != 0) CHECK(rc_key != 0 && rc_out != 0 && seed != 0, "encrypt reaches the kernel with key, output file and seed");
  return rc_fin != 0 && (IN.opres & 1);
}
u8 stub_rc_decrypt(u8 *self, u64 fsize)
{
  rc_ops++;
  if (rc_fin != 0) CHECK(rc_key != 0 && rc_out != 0, "decrypt reaches the kernel only with a key and an output file (else a diagnostic and a non-zero exit)");
  return rc_fin != 0 && (IN.opres & 1);
}
u8 stub_rc_verify(u8 *self, u64 fsize)
{
  rc_ops++;
  if (rc_fin != 0) CHECK(rc_key != 0, "verify reaches the kernel only with a key (else a diagnostic and a non-zero exit)");
  return rc_fin != 0 && (IN.opres & 1);
}
void harness(void)
{
  LOAD_INPUTS();
  ASSUME(IN.nopts >= 1 && IN.nopts <= NOPT);            /* argc == 1 is the interactive mode (excluded by C17) */
  for (int i = 0; i < NOPT; i++) ASSUME(IN.opts[i] < NMENU);
  for (int i = 0; i < 130; i++) LONGPATH[i] = 'p';
  LONGPATH[130] = 0;
  u8 inbytes[8] = {0};
  IN_FILE = envf_open_in(inbytes, 8); OUT_FILE = envf_open_out(64);
  global_ctors();                                       /* static initialisers of information.cpp (mode name tables) */
  u8 *argv[2] = {(u8 *)"Wencry", 0};
  u32 diag0 = diag;
  u32 ret = vf_main(1 + IN.nopts, (u8 *)argv);
  int mode = -1, modes = 0;
  for (u32 i = 0; i < IN.nopts && i < NOPT; i++) { int c = MENU[IN.opts[i]].c; if (c == 'e' || c == 'd' || c == 'v' || c == 'V' || c == 'h') { if (!modes) mode = c; modes++; } }
  if (ret == 0) {
    CHECK((rc_ops == 1 && (IN.opres & 1)) || (rc_ops == 0 && (mode == 'V' || mode == 'h')), "exit status 0 exactly when the requested operation ran and succeeded (or version/help)");
  } else {
    CHECK(!(rc_ops == 1 && (IN.opres & 1) && rc_fin != 0), "a successful operation exits 0");
    CHECK(rc_ops == 1 || diag > diag0, "every failing command line prints a diagnostic");
  }
  CHECK(rc_ops <= 1, "at most one operation per invocation");
  WITNESS_POINT();
}
HARNESS_MAIN
