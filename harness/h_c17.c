/* C17 - command line: no crash on any option vector; exit 0 iff the requested operation succeeded; otherwise diagnostic + non-zero.
   Real code: main (renamed), get_v_opt, parseOpts, Settings, check_ctype/htype, getArgsKey, printkey, base64, std::string helpers.
   Decomposition (the option loop of get_v_opt calls parseOpts once per option, so an induction over the loop covers EVERY option vector):
     H_STEP   parseOpts(c, res) from an ARBITRARY state satisfying Inv, arbitrary option code c, arbitrary argument text of a given
              length, arbitrary fopen outcome / file size / number: memory safe, accepted exactly when the rule says so, a rejection
              prints a diagnostic, an accepted option changes exactly its own setting, Inv is preserved.
     H_TAIL   get_v_opt with parseOpts replaced by "havoc to any Inv state, return any verdict" (first call checks that the initial
              state satisfies Inv): NULL + diagnostic unless every option was accepted and the mode has what it needs; else Q holds.
     H_MAIN   main with get_v_opt replaced by "NULL, or any state satisfying Q": exit status 0 iff version/help or the one requested
              operation ran on exactly the parsed files/key/modes and reported success.
     H_WHOLE  the undivided real main() on a concrete option sequence from a menu (integration: ties the three pieces together),
              and the default output name "<input>.wenc" for a symbolic input path.
   Inv: mode in {u,e,d,v,V,h}, ctype in {-1,0..4}, htype in {-1,0..2}, fp/out/key each NULL or valid (key: 16 bytes).
   Q:   mode in {e,d,v,V,h}; e: fp,out,key valid, ctype in 0..4, htype in 0..2; d: fp,out,key valid; v: fp,key valid.
   The same file is compiled natively against the real build (real getopt_long, fopen, kernel) to replay counterexamples. */
#include "vharness.h"
#include "env_file.h"
#include "ref_b64.h"
#include <stdarg.h>
#include <string.h>
#include <stdint.h>

u32 vf_main(u32 argc, u8 *argv);
u8 *vf_get_v_opt(u32 argc, u8 *argv);
u32 vf_parseopts(u32 c, u8 *res);
u8 *vf_pak_new(void);
void vf_pak_set(u8 *v, u8 *fp, u8 *out, u8 *key, u64 size, u32 mode, u32 ctype, u32 htype, u32 noecho);
u8 *vf_pak_fp(u8 *v); u8 *vf_pak_out(u8 *v); u8 *vf_pak_key(u8 *v); u64 vf_pak_size(u8 *v);
u32 vf_pak_mode(u8 *v); u32 vf_pak_ctype(u8 *v); u32 vf_pak_htype(u8 *v); u32 vf_pak_noecho(u8 *v);
u32 vf_rc_resultprint_off(void); u32 vf_rc_sizeof(void);
void global_ctors(void);

static const char KEY_OK[] = "QUJDREVGR0hJSktMTU5PUA==";
static u32 diag;                                     /* diagnostics printed (model: calls of strlog / exit path; native: bytes on stdout) */

static int inv_ok(int mode, int ct, int ht)
{
  return (mode == 'u' || mode == 'e' || mode == 'd' || mode == 'v' || mode == 'V' || mode == 'h') && ct >= -1 && ct <= 4 && ht >= -1 && ht <= 2;
}
static int key_text_valid(const u8 *s, u32 len)      /* C16: 22 alphabet symbols followed by "==" */
{
  if (len != 24) return 0;
  for (int i = 0; i < 22; i++) if (ref_b64_val(s[i]) < 0) return 0;
  return s[22] == '=' && s[23] == '=';
}
static void key_text_decode(const u8 *s, u8 *out)
{
  u8 tmp[18]; int o = 0;
  for (int i = 0; i < 24; i += 4) {
    u32 v = 0;
    for (int j = 0; j < 4; j++) { int d = ref_b64_val(s[i + j]); v = (v << 6) | (u32)(d < 0 ? 0 : d); }
    tmp[o++] = (u8)(v >> 16); tmp[o++] = (u8)(v >> 8); tmp[o++] = (u8)v;
  }
  memcpy(out, tmp, 16);
}

#if MODEL
/* =================================================== environment of the generated C */
extern u8 *X_G_optarg; extern u32 X_G_optind;
#define SET_OPTARG(p) (X_G_optarg = (u8 *)(p))
static u8 *F_IN, *F_OUT;                             /* what fopen hands out */
static u32 fopen_calls, fopen_r, fopen_w; static u8 *fopen_name; static u8 fopen_wname[260];
static int fopen_outcome(u8 *name, int wr);
u8 *X_fopen(u8 *name, u8 *mode)
{
  fopen_calls++; fopen_name = name;
  int wr = mode[0] == 'w';
  if (wr) { fopen_w++; CHECK(mode[1] == 'b' && mode[2] == '+' && mode[3] == 0, "output files are opened \"wb+\""); for (u32 i = 0; i < 259; i++) { fopen_wname[i] = name[i]; if (!name[i]) break; } }
  else { fopen_r++; CHECK(mode[0] == 'r' && mode[1] == 'b' && mode[2] == 0, "input files are opened \"rb\""); }
  if (!fopen_outcome(name, wr)) return 0;
  return wr ? F_OUT : F_IN;
}
u32 X_sprintf(u8 *dst, u8 *fmt, ...)
{
  /* the only format the unit ever used: "%s.wenc" - byte exact, unbounded (as sprintf) */
  va_list ap; va_start(ap, fmt);
  const u8 *s = va_arg(ap, const u8 *);
  va_end(ap);
  CHECK(fmt[0] == '%' && fmt[1] == 's', "sprintf model: format \"%s.wenc\"");
  u32 n = 0;
  for (; n < 300 && s[n]; n++) dst[n] = s[n];
  for (u32 j = 2; j < 16 && fmt[j]; j++) dst[n++] = fmt[j];
  dst[n] = 0;
  return n;
}
u32 X_snprintf(u8 *dst, u64 cap, u8 *fmt, ...)
{
  va_list ap; va_start(ap, fmt);
  const u8 *s = va_arg(ap, const u8 *);
  va_end(ap);
  u32 n = 0, w = 0;
  for (; n < 300 && s[n]; n++) { if (w + 1 < cap) dst[w++] = s[n]; }
  u32 tot = n;
  for (u32 j = 2; j < 16 && fmt[j]; j++) { if (w + 1 < cap) dst[w++] = fmt[j]; tot++; }
  if (cap) dst[w] = 0;
  return tot;
}
static int64_t strtol_value(u8 *s);
static u32 strtol_consumed, strtol_erange;           /* how many characters the number took; whether the value saturated (errno = ERANGE) */
static u32 env_errno;
u8 *X___errno_location(void) { return (u8 *)&env_errno; }
u64 X_strtol(u8 *s, u8 *end, u32 base)
{
  (void)base;
  int64_t v = strtol_value(s);
  if (end) *(u8 **)end = s + strtol_consumed;
  if (strtol_erange) env_errno = 34;             /* ERANGE */
  return (u64)v;
}
u32 X_atoi(u8 *s) { return (u32)strtol_value(s); }
static u64 file_size_value;
u64 X__ZNSt10filesystem9file_sizeERKNS_7__cxx114pathE(u8 *p) { (void)p; return file_size_value; }
void X__ZNSt10filesystem7__cxx114path14_M_split_cmptsEv(u8 *p) { (void)p; }
void X__ZNSt10filesystem7__cxx114path5_ListC1Ev(u8 *p) { *(u8 **)p = 0; }
void X__ZNKSt10filesystem7__cxx114path5_List13_Impl_deleterclEPNS2_5_ImplE(u8 *d, u8 *i) { (void)d; (void)i; }
/* strlog(std::string, std::string, char): diagnostics are counted, not formatted */
void stub_strlog(u8 *s1, u8 *s2, u8 fill) { (void)s1; (void)s2; (void)fill; diag++; }
void X_exit(u32 status)
{
  CHECK(status != 0, "exit() is only used for failures");
  ASSUME(0);                                   /* the process ends here with a non-zero status; Settings prints to stderr before every exit */
}
#define DIAG_BEGIN() ((void)0)
#define DIAG_END() CHECK(ir2c_exc == 0, "an exception escapes to the caller (std::terminate: the program aborts)")
#else
/* =================================================== native replay against the real build */
#include <unistd.h>
#include <fcntl.h>
#include <sys/stat.h>
extern char *optarg;
#define SET_OPTARG(p) (optarg = (char *)(p))
static int saved_fd = -1;
static void DIAG_BEGIN(void) { fflush(stdout); saved_fd = dup(1); int fd = open("diag.txt", O_WRONLY | O_CREAT | O_TRUNC, 0600); dup2(fd, 1); close(fd); }
static void DIAG_END(void) { fflush(stdout); struct stat st; fstat(1, &st); dup2(saved_fd, 1); close(saved_fd); if (st.st_size > 0) diag++; }
static void put_file(const char *name, const void *p, u32 n) { FILE *f = fopen(name, "wb"); if (f) { fwrite(p, 1, n, f); fclose(f); } }
void global_ctors(void) {}
#endif

/* =============================================================================================================== H_STEP */
#if defined(H_STEP)
#ifndef ARGLEN
#define ARGLEN 24
#endif
struct in_t { u8 c; u8 arg[ARGLEN + 1]; u8 mode, ctype, htype, noecho, has_fp, has_out, has_key, fopen_ok; u64 size, fsize; int64_t num; u8 consumed, erange; } IN;
static u8 ARG[ARGLEN + 1];
#if MODEL
static int fopen_outcome(u8 *name, int wr) { (void)wr; CHECK(name == ARG, "fopen is given the option's argument"); return IN.fopen_ok != 0; }
static int64_t strtol_value(u8 *s) { CHECK(s == ARG, "the number is parsed from the option's argument"); return IN.num; }      /* strtol: any long (saturation included) */
#endif
void harness(void)
{
  LOAD_INPUTS();
  int c = (int)(signed char)IN.c, mode = (int)(signed char)IN.mode, ct = (int)(signed char)IN.ctype, ht = (int)(signed char)IN.htype;
  ASSUME(inv_ok(mode, ct, ht));
  /* strtol contract: consumes a prefix; no digits -> 0; saturates with ERANGE */
  ASSUME(IN.consumed <= ARGLEN && (IN.consumed != 0 || IN.num == 0));
  ASSUME(!IN.erange || IN.num == INT64_MAX || IN.num == INT64_MIN);
  int numeric = ARGLEN >= 1 && IN.consumed == ARGLEN;       /* the whole argument is a number (anything else: atoi semantics, outside the claim) */
#ifdef OPTC
  ASSUME(c == OPTC);              /* option code concrete per query ... */
#else
  ASSUME(c != 'e' && c != 'd' && c != 'v' && c != 'V' && c != 'h' && c != 'i' && c != 'o' && c != 'k' && c != 'n' && c != 1 && c != 2);   /* ... or any of the other 245 char values */
#endif
#if !MODEL
  for (u32 i = 0; i < ARGLEN; i++) if (IN.arg[i] < 0x21 || IN.arg[i] > 0x7e) IN.arg[i] = 'a';       /* bytes the (sliced) trace does not mention */
#endif
  for (u32 i = 0; i < ARGLEN; i++) { ASSUME(IN.arg[i] >= 0x21 && IN.arg[i] <= 0x7e); ARG[i] = IN.arg[i]; }
  ARG[ARGLEN] = 0;
  global_ctors();
  u8 inbytes[8] = {1, 2, 3, 4, 5, 6, 7, 8}, prekey[16] = {0};
  u8 *PRE_IN = envf_open_in(inbytes, 8), *PRE_OUT = envf_open_out(8);
  u8 *pre_key = env_alloc(16); memcpy(pre_key, prekey, 16);
  u8 *pak = vf_pak_new();
  u8 *fp0 = IN.has_fp ? PRE_IN : 0, *out0 = IN.has_out ? PRE_OUT : 0, *key0 = IN.has_key ? pre_key : 0;
  vf_pak_set(pak, fp0, out0, key0, IN.size, (u32)mode, (u32)ct, (u32)ht, IN.noecho != 0);
  u8 *argp = ARG;
#if MODEL
  F_IN = envf_open_in(inbytes, 8); F_OUT = envf_open_out(64);
  file_size_value = IN.fsize;
  u64 exp_size = IN.fsize;
  strtol_consumed = IN.consumed; strtol_erange = IN.erange != 0;
  { extern u64 env_strlen_hint; extern u8 *env_strlen_hint_ptr; env_strlen_hint = ARGLEN; env_strlen_hint_ptr = ARG; }      /* the argument's length is the concrete parameter ARGLEN */
#else
  /* native: the argument is a real path / number text in the (fresh) working directory */
  static char numtxt[48];
  u64 exp_size = 8;
  if (c == 'i' || c == 'o') for (u32 i = 0; i < ARGLEN; i++) if (ARG[i] == '/') ARG[i] = '_';      /* a file name in the scratch directory */
  if (c == 1 || c == 2) {
    if (IN.erange) snprintf(numtxt, sizeof numtxt, "%s99999999999999999999", IN.num < 0 ? "-" : "");
    else if (IN.consumed == 0) snprintf(numtxt, sizeof numtxt, "x");
    else snprintf(numtxt, sizeof numtxt, "%lld%s", (long long)IN.num, numeric ? "" : "x");
    argp = (u8 *)numtxt;
  }
  if (c == 'i' && IN.fopen_ok) put_file((char *)ARG, inbytes, 8);
  if (c == 'o' && !IN.fopen_ok) mkdir((char *)ARG, 0700);               /* fopen(dir, "wb+") fails */
#endif
  SET_OPTARG(c == 'e' || c == 'd' || c == 'v' || c == 'V' || c == 'h' || c == 'n' ? 0 : argp);    /* getopt_long leaves optarg NULL for options without argument */
  u32 diag0 = diag;
  DIAG_BEGIN();
  u32 r = vf_parseopts((u32)c, pak);
  DIAG_END();
  /* ---- the rule */
  int exp_ok, is_mode = c == 'e' || c == 'd' || c == 'v' || c == 'V' || c == 'h';
  if (is_mode) exp_ok = mode == 'u';
  else if (c == 'i' || c == 'o') exp_ok = IN.fopen_ok != 0;
  else if (c == 'k') exp_ok = key_text_valid(ARG, ARGLEN);
  else if (c == 'n') exp_ok = 1;
  else if (c == 1) exp_ok = ct == -1 && IN.num >= 0 && IN.num <= 4;
  else if (c == 2) exp_ok = ht == -1 && IN.num >= 0 && IN.num <= 2;
  else exp_ok = 0;
  if ((c == 1 || c == 2) && !numeric) exp_ok = r != 0 && exp_ok;      /* non-numeric text: rejecting is always fine, accepting only what the number rule allows */
  CHECK((r != 0) == (exp_ok != 0), "an option is accepted exactly when: one mode only / the file opens / the key text is 22 symbols + \"==\" / the mode number is in range and given once / the option is known");
  if (!r) CHECK(diag > diag0, "a rejected option prints a diagnostic");
  if (r) {
    int m1 = (int)(signed char)vf_pak_mode(pak), c1 = (int)(signed char)vf_pak_ctype(pak), h1 = (int)(signed char)vf_pak_htype(pak);
    CHECK(inv_ok(m1, c1, h1), "Inv preserved: mode letter and mode numbers stay in their ranges");
    CHECK(m1 == (is_mode ? c : mode), "mode letter: set by a mode option, otherwise unchanged");
    CHECK(c1 == (c == 1 ? (int)IN.num : ct), "cipher mode: the given number, otherwise unchanged");
    CHECK(h1 == (c == 2 ? (int)IN.num : ht), "hash mode: the given number, otherwise unchanged");
    CHECK(vf_pak_noecho(pak) == (u32)(c == 'n' ? 1 : IN.noecho != 0), "no_echo: set by -n, otherwise unchanged");
    u8 *fp1 = vf_pak_fp(pak), *out1 = vf_pak_out(pak), *key1 = vf_pak_key(pak);
    if (c == 'i') {
#if MODEL
      CHECK(fp1 == F_IN && fopen_r == 1 && fopen_calls == 1, "-i: the input handle is the file just opened for reading");
#else
      CHECK(fp1 != 0 && fp1 != fp0, "-i: the input handle is the file just opened for reading");
#endif
      CHECK(vf_pak_size(pak) == exp_size, "-i: size = file size");
    } else { CHECK(fp1 == fp0, "input handle unchanged"); CHECK(vf_pak_size(pak) == IN.size, "size unchanged"); }
    if (c == 'o') {
#if MODEL
      CHECK(out1 == F_OUT && fopen_w == 1 && fopen_calls == 1, "-o: the output handle is the file just opened \"wb+\"");
#else
      CHECK(out1 != 0 && out1 != out0, "-o: the output handle is the file just opened \"wb+\"");
#endif
    } else CHECK(out1 == out0, "output handle unchanged");
    if (c == 'k') {
      u8 want[16]; key_text_decode(ARG, want);
      CHECK(key1 != 0 && key1 != key0, "-k: a fresh key buffer");
      if (key1) for (int i = 0; i < 16; i++) CHECK(key1[i] == want[i], "-k: the 16 key bytes are the base64 decoding of the text");
    } else CHECK(key1 == key0, "key unchanged");
#if MODEL
    if (c != 'i' && c != 'o') CHECK(fopen_calls == 0, "no file is opened by other options");
#endif
  }
  WITNESS_POINT();
}

/* =============================================================================================================== H_TAIL */
#elif defined(H_TAIL)
#ifndef NOPT
#define NOPT 2
#endif
struct hav { u8 ok, mode, ctype, htype, noecho, has_fp, has_out, has_key; u64 size; };
struct in_t { u8 nopts; u8 c[NOPT + 1]; struct hav h[NOPT + 1]; u8 fopen_ok; u8 nopts0, rej0; struct hav h0; } IN;
static u8 *PRE_IN, *PRE_OUT, *PRE_KEY;
static u32 g_pos, parse_calls, any_reject;
/* TAIL_HISTORY (C15: CLI globals): an EARLIER command line is parsed in the same process image first - IN.nopts0 (<= 3) options, every one
   leaving the arbitrary Inv state IN.h0, the last one rejected inside the loop iff IN.rej0 - and then the command line under test. The
   parse under test must start scanning at argv[1] (optind rewound whatever exit path the earlier parse took); everything H_TAIL checks
   about it must hold unchanged. */
static u32 phase;
#if MODEL
static int fopen_outcome(u8 *name, int wr) { (void)name; CHECK(wr, "get_v_opt itself opens only the default output file"); return IN.fopen_ok != 0; }
static int64_t strtol_value(u8 *s) { (void)s; CHECK(0, "no number parsing outside parseOpts"); return 0; }
u32 X_getopt_long(u32 argc, u8 *argv, u8 *so, u8 *lo, u8 *idx)
{
  (void)argc; (void)argv; (void)so; (void)lo; (void)idx;
#ifdef TAIL_HISTORY
  if (phase == 0) {
    if (g_pos >= IN.nopts0 || g_pos >= 3) return 0xffffffffu;
    g_pos++; X_G_optind++;
    return (u32)'n';
  }
  if (g_pos == 0) CHECK(X_G_optind == 1 || X_G_optind == 0, "every parse starts scanning at argv[1], whatever command line was parsed earlier in this process and however that parse ended (optind rewound)");
#endif
  if (g_pos >= IN.nopts || g_pos >= NOPT) return 0xffffffffu;
  u8 k = IN.c[g_pos++];
  X_G_optind++;
  return (u32)k;
}
/* stands for parseOpts: what H_STEP proves about it is all that is used here */
u8 stub_parseopts(u8 c, u8 *res)
{
  (void)c;
  u32 k = parse_calls++;
#ifdef TAIL_HISTORY
  if (phase == 0) {
    struct hav *h = &IN.h0;
    vf_pak_set(res, h->has_fp ? PRE_IN : 0, h->has_out ? PRE_OUT : 0, h->has_key ? PRE_KEY : 0, h->size, (u32)(int)(signed char)h->mode, (u32)(int)(signed char)h->ctype, (u32)(int)(signed char)h->htype, h->noecho != 0);
    if (IN.rej0 && k + 1 == IN.nopts0) { diag++; return 0; }
    return 1;
  }
#endif
  if (k == 0) {
    CHECK(inv_ok((int)(signed char)vf_pak_mode(res), (int)(signed char)vf_pak_ctype(res), (int)(signed char)vf_pak_htype(res)) && (int)(signed char)vf_pak_mode(res) == 'u'
          && vf_pak_fp(res) == 0 && vf_pak_out(res) == 0 && vf_pak_key(res) == 0 && vf_pak_noecho(res) == 0, "the initial state satisfies Inv (mode unset, numbers unset, no files, no key)");
  }
  if (k >= NOPT) return 0;
  struct hav *h = &IN.h[k];
  vf_pak_set(res, h->has_fp ? PRE_IN : 0, h->has_out ? PRE_OUT : 0, h->has_key ? PRE_KEY : 0, h->size, (u32)(int)(signed char)h->mode, (u32)(int)(signed char)h->ctype, (u32)(int)(signed char)h->htype, h->noecho != 0);
  if (!h->ok) { diag++; any_reject = 1; return 0; }
  return 1;
}
#endif
void harness(void)
{
  LOAD_INPUTS();
  ASSUME(IN.nopts <= NOPT);
  for (u32 k = 0; k < NOPT; k++) { ASSUME(inv_ok((int)(signed char)IN.h[k].mode, (int)(signed char)IN.h[k].ctype, (int)(signed char)IN.h[k].htype)); ASSUME(IN.c[k] != 0xff); }
#ifdef TAIL_HISTORY
  ASSUME(IN.nopts0 <= 3 && IN.rej0 <= 1 && (!IN.rej0 || IN.nopts0 >= 1));
  ASSUME(inv_ok((int)(signed char)IN.h0.mode, (int)(signed char)IN.h0.ctype, (int)(signed char)IN.h0.htype));
  /* the command line under test is a complete -e one (what the scan-start CHECK needs does not depend on it; a complete one makes a stale
     cursor observable in the native replay, where real getopt_long then skips options) */
  ASSUME(IN.nopts == NOPT && NOPT >= 1 && (signed char)IN.h[NOPT - 1].mode == 'e' && IN.h[NOPT - 1].has_fp && IN.h[NOPT - 1].has_out);
  for (u32 k = 0; k < NOPT; k++) ASSUME(IN.h[k].ok);
#endif
  global_ctors();
  u8 inbytes[8] = {1, 2, 3, 4, 5, 6, 7, 8};
  /* final state = the last havoc (initial state if there was no option) */
  int any_rej = 0; for (u32 k = 0; k < IN.nopts && k < NOPT; k++) if (!IN.h[k].ok) { any_rej = 1; break; }
  struct hav init = {1, 'u', 0xff, 0xff, 0, 0, 0, 0, 0};
  struct hav S = IN.nopts ? IN.h[IN.nopts - 1 < NOPT ? IN.nopts - 1 : 0] : init;
  int mode = (int)(signed char)S.mode, ct = (int)(signed char)S.ctype, ht = (int)(signed char)S.htype;
  u32 diag0 = diag;
#if MODEL
  PRE_IN = envf_open_in(inbytes, 8); PRE_OUT = envf_open_out(8); PRE_KEY = env_alloc(16); memset(PRE_KEY, 7, 16);
  F_IN = envf_open_in(inbytes, 8); F_OUT = envf_open_out(64);
  u8 *argv[2] = {(u8 *)"Wencry", 0};
#ifdef TAIL_HISTORY
  phase = 0;
  (void)vf_get_v_opt(2, (u8 *)argv);
  DIAG_END();
  phase = 1; g_pos = 0; parse_calls = 0; any_reject = 0; fopen_calls = 0; diag0 = diag;
  F_OUT = envf_open_out(64);
#endif
  u8 *ret = vf_get_v_opt(2, (u8 *)argv);
  DIAG_END();
#else
  /* native: a real option vector that leads the real parser to the state S (or contains a rejected option) */
  static char ctxt[8], htxt[8];
  char *argv[24]; int argc = 0;
  argv[argc++] = "Wencry";
  put_file("in.bin", inbytes, 8);
  if (mode != 'u') { static char m[3] = "-e"; m[1] = (char)mode; argv[argc++] = m; }
  if (ct != -1) { snprintf(ctxt, sizeof ctxt, "%d", ct); argv[argc++] = "--cmode"; argv[argc++] = ctxt; }
  if (ht != -1) { snprintf(htxt, sizeof htxt, "%d", ht); argv[argc++] = "--hmode"; argv[argc++] = htxt; }
  if (S.noecho) argv[argc++] = "-n";
  if (S.has_fp) { argv[argc++] = "-i"; argv[argc++] = "in.bin"; }
  if (S.has_out) { argv[argc++] = "-o"; argv[argc++] = "out.bin"; }
  if (S.has_key) { argv[argc++] = "-k"; argv[argc++] = (char *)KEY_OK; }
  if (any_rej) { argv[argc++] = "-k"; argv[argc++] = "bad"; }
  if (argc == 1) argv[argc++] = "stray";
  argv[argc] = 0;
#ifdef TAIL_HISTORY
  { /* the earlier command line: IN.nopts0 options, the last one a malformed key iff IN.rej0 (rejected inside the option loop) */
    char *argv0[12]; int argc0 = 0;
    argv0[argc0++] = "Wencry";
    for (u32 k = 0; k + (IN.rej0 ? 1 : 0) < IN.nopts0 && k < 3; k++) argv0[argc0++] = "-n";
    if (IN.rej0) { argv0[argc0++] = "-k"; argv0[argc0++] = "bad"; }
    argv0[argc0] = 0;
    DIAG_BEGIN();
    (void)vf_get_v_opt((u32)argc0, (u8 *)argv0);
    DIAG_END();
    diag0 = diag;
  }
#endif
  if (!IN.fopen_ok) mkdir("in.bin.wenc", 0700);
  DIAG_BEGIN();
  u8 *ret = vf_get_v_opt((u32)argc, (u8 *)argv);
  DIAG_END();
#endif
  int needs_default_out = mode == 'e' && S.has_fp && !S.has_out;
  int accept = !any_rej && (mode == 'V' || mode == 'h' || (mode == 'e' && S.has_fp && (S.has_out || IN.fopen_ok)) || (mode == 'd' && S.has_fp && S.has_key && S.has_out) || (mode == 'v' && S.has_fp && S.has_key));
  CHECK((ret != 0) == (accept != 0), "the parser succeeds exactly when every option was accepted and the mode has what it needs (-e: input; -d: input, key, output; -v: input, key; a default output that opens)");
  if (!ret) CHECK(diag > diag0, "a rejected command line prints a diagnostic");
  if (ret) {
    int m1 = (int)(signed char)vf_pak_mode(ret), c1 = (int)(signed char)vf_pak_ctype(ret), h1 = (int)(signed char)vf_pak_htype(ret);
    CHECK(m1 == mode, "mode letter as parsed");
    if (mode == 'e') {
      CHECK(c1 == (ct == -1 ? 0 : ct) && h1 == (ht == -1 ? 0 : ht), "-e: unset mode numbers default to 0, given ones are kept");
      CHECK(vf_pak_fp(ret) != 0 && vf_pak_out(ret) != 0 && vf_pak_key(ret) != 0, "Q(-e): input, output and key are present");
#if MODEL
      CHECK(vf_pak_fp(ret) == PRE_IN && vf_pak_out(ret) == (S.has_out ? PRE_OUT : F_OUT) && (fopen_calls == (u32)needs_default_out), "-e: the default output is opened only when -o was not given");
      if (S.has_key) CHECK(vf_pak_key(ret) == PRE_KEY, "-e: a given key is kept");
#endif
    } else {
      CHECK(c1 == ct && h1 == ht, "mode numbers as parsed");
      if (mode == 'd') CHECK(vf_pak_fp(ret) != 0 && vf_pak_out(ret) != 0 && vf_pak_key(ret) != 0, "Q(-d): input, output and key are present");
      if (mode == 'v') CHECK(vf_pak_fp(ret) != 0 && vf_pak_key(ret) != 0, "Q(-v): input and key are present");
#if MODEL
      CHECK(fopen_calls == 0, "no file is opened outside -e's default output");
#endif
    }
    CHECK(vf_pak_noecho(ret) == (u32)(S.noecho != 0), "no_echo as parsed");
  }
  WITNESS_POINT();
}

/* =============================================================================================================== H_MAIN / H_WHOLE */
#elif defined(H_MAIN) || defined(H_WHOLE)
/* ---- kernel stub (model only): records what runcrypt is constructed with and which operation runs; the result is symbolic */
static u8 *rc_fin, *rc_out, *rc_key; static u32 rc_made, rc_ops, rc_kind, rc_ct, rc_ht; static u64 rc_size; static u8 *rc_seed;
#ifdef H_MAIN
struct in_t { u8 null, mode, ctype, htype, noecho, has_out, has_key, opres; u64 size; } IN;
#else
#ifndef WPATHLEN
#define WPATHLEN 6
#endif
struct in_t { u8 opres; u64 fsize; u8 path[WPATHLEN + 1]; } IN;
#endif
#if MODEL
void stub_rc_ctor(u8 *self, u8 *fin, u8 *out, u8 *key, u32 settings, u8 threads)
{
  (void)threads;
  rc_made++; rc_fin = fin; rc_out = out; rc_key = key;
  memset(self, 0, vf_rc_sizeof());                       /* ~runcrypt deletes resultprint and destroys the (unstarted) thread array */
  rc_ct = (u8)settings; rc_ht = (u8)(settings >> 8);
  CHECK((rc_ct <= 4 || rc_ct == 0xff) && (rc_ht <= 2 || rc_ht == 0xff), "the kernel receives in-range (or unset) mode numbers");
}
u8 stub_rc_encrypt(u8 *self, u64 fsize, u8 *seed)
{
  (void)self; rc_ops++; rc_kind = 'e'; rc_size = fsize; rc_seed = seed;
  CHECK(rc_fin != 0 && rc_key != 0 && rc_out != 0 && seed != 0, "encrypt reaches the kernel with input, key, output file and seed");
  CHECK(rc_ct <= 4 && rc_ht <= 2, "encrypt reaches the kernel with concrete mode numbers");
  return IN.opres & 1;
}
u8 stub_rc_decrypt(u8 *self, u64 fsize)
{
  (void)self; rc_ops++; rc_kind = 'd'; rc_size = fsize;
  CHECK(rc_fin != 0 && rc_key != 0 && rc_out != 0, "decrypt reaches the kernel only with input, key and output file (else a diagnostic and a non-zero exit)");
  return IN.opres & 1;
}
u8 stub_rc_verify(u8 *self, u64 fsize)
{
  (void)self; rc_ops++; rc_kind = 'v'; rc_size = fsize;
  CHECK(rc_fin != 0 && rc_key != 0, "verify reaches the kernel only with input and key (else a diagnostic and a non-zero exit)");
  return IN.opres & 1;
}
#endif
#if !MODEL
/* native: a valid encrypted file for the operations that are to succeed, junk for those that are to fail */
static void native_files(void)
{
  u8 inbytes[40]; for (int i = 0; i < 40; i++) inbytes[i] = (u8)(i * 3 + 1);
  put_file("in.bin", inbytes, 40);
  put_file("junk.bin", inbytes, 40);
  char *a[] = {"Wencry", "-e", "-i", "in.bin", "-o", "valid.wenc", "-k", (char *)KEY_OK, "-n", 0};
  DIAG_BEGIN(); (void)vf_main(9, (u8 *)a); DIAG_END();
}
#endif

#ifdef H_MAIN
static u8 *PAK, *PRE_IN, *PRE_OUT, *PRE_KEY;
#if MODEL
static int fopen_outcome(u8 *name, int wr) { (void)name; (void)wr; CHECK(0, "main opens no file itself"); return 0; }
static int64_t strtol_value(u8 *s) { (void)s; return 0; }
u8 *stub_get_v_opt(u32 argc, u8 *argv)
{
  (void)argc; (void)argv;
  if (IN.null) { diag++; return 0; }               /* H_TAIL: NULL comes with a diagnostic */
  return PAK;
}
#endif
void harness(void)
{
  LOAD_INPUTS();
  int mode = (int)(signed char)IN.mode, ct = (int)(signed char)IN.ctype, ht = (int)(signed char)IN.htype;
  /* Q */
  ASSUME(mode == 'e' || mode == 'd' || mode == 'v' || mode == 'V' || mode == 'h');
  ASSUME(ct >= -1 && ct <= 4 && ht >= -1 && ht <= 2);
  if (mode == 'e') ASSUME(ct >= 0 && ht >= 0 && IN.has_out && IN.has_key);
  if (mode == 'd') ASSUME(IN.has_out && IN.has_key);
  if (mode == 'v') ASSUME(IN.has_key);
  int has_fp = mode == 'e' || mode == 'd' || mode == 'v' ? 1 : 0;
  global_ctors();
  u32 diag0 = diag;
#if MODEL
  u8 inbytes[8] = {1, 2, 3, 4, 5, 6, 7, 8};
  PRE_IN = envf_open_in(inbytes, 8); PRE_OUT = envf_open_out(8); PRE_KEY = env_alloc(16); memset(PRE_KEY, 7, 16);
  PAK = vf_pak_new();
  vf_pak_set(PAK, has_fp ? PRE_IN : 0, IN.has_out ? PRE_OUT : 0, IN.has_key ? PRE_KEY : 0, IN.size, (u32)mode, (u32)ct, (u32)ht, IN.noecho != 0);
  u8 *argv[3] = {(u8 *)"Wencry", (u8 *)"x", 0};
  u32 ret = vf_main(2, (u8 *)argv);
  DIAG_END();
#else
  native_files();
  static char ctxt[8], htxt[8], m[3] = "-e";
  char *argv[24]; int argc = 0;
  argv[argc++] = "Wencry";
  if (IN.null) { argv[argc++] = "-k"; argv[argc++] = "bad"; }
  m[1] = (char)mode; argv[argc++] = m;
  if (mode == 'e') { snprintf(ctxt, sizeof ctxt, "%d", ct); argv[argc++] = "--cmode"; argv[argc++] = ctxt; snprintf(htxt, sizeof htxt, "%d", ht); argv[argc++] = "--hmode"; argv[argc++] = htxt; }
  if (IN.noecho) argv[argc++] = "-n";
  if (has_fp) { argv[argc++] = "-i"; argv[argc++] = mode == 'e' ? "in.bin" : (IN.opres & 1) ? "valid.wenc" : "junk.bin"; }
  if (IN.has_out) { argv[argc++] = "-o"; argv[argc++] = "out.bin"; }
  if (IN.has_key) { argv[argc++] = "-k"; argv[argc++] = (char *)KEY_OK; }
  argv[argc] = 0;
  if (mode == 'e') ASSUME(IN.opres & 1);            /* a failing encryption cannot be arranged natively */
  DIAG_BEGIN();
  u32 ret = vf_main((u32)argc, (u8 *)argv);
  DIAG_END();
#endif
  if (IN.null) {
    CHECK(ret != 0, "a rejected command line exits non-zero");
    CHECK(diag > diag0, "a rejected command line prints a diagnostic");
#if MODEL
    CHECK(rc_made == 0 && rc_ops == 0, "a rejected command line starts no operation");
#endif
  } else if (mode == 'V' || mode == 'h') {
    CHECK(ret == 0, "version / help exit 0");
#if MODEL
    CHECK(rc_made == 0 && rc_ops == 0, "version / help start no operation");
#endif
  } else {
    CHECK((ret == 0) == ((IN.opres & 1) != 0), "exit status 0 exactly when the requested operation reported success");
#if MODEL
    CHECK(rc_made == 1 && rc_ops == 1 && rc_kind == (u32)mode, "exactly the requested operation runs, once");
    CHECK(rc_fin == PRE_IN && rc_out == (IN.has_out ? PRE_OUT : 0) && rc_key == PRE_KEY, "the kernel gets the parsed input, output and key");
    CHECK(rc_ct == (u8)ct && rc_ht == (u8)ht && rc_size == IN.size, "the kernel gets the parsed mode numbers and size");
#endif
  }
  WITNESS_POINT();
}

#else  /* ---------------------------------------------------------------------------------------------------------- H_WHOLE */
/* SEQ: comma separated menu indices (concrete per query); the operation result, the file size and the bytes of the symbolic input path are symbolic */
static char LONGPATH[131], SYMPATH[WPATHLEN + 1];
static const char KEY_BAD1[] = "QUJDREVGR0hJSktMTU5PUFE=", KEY_BAD2[] = "short", KEY_BAD3[] = "QUJDREVGR0hJSktMTU5PU!==";
struct mopt { int c; const char *arg; };
#define NMENU 24
static struct mopt MENU[NMENU] = {
  {'e', 0}, {'d', 0}, {'v', 0},
  {'i', "in.bin"}, {'i', "nofile"}, {'i', LONGPATH},
  {'o', "out.bin"}, {'o', "/nodir/out"},
  {'k', KEY_OK}, {'k', KEY_BAD1}, {'k', KEY_BAD2}, {'k', KEY_BAD3},
  {1, "2"}, {1, "7"}, {2, "1"}, {2, "9"},
  {'n', 0}, {'V', 0}, {'h', 0}, {'?', 0}, {1, "-3"},
  {'i', SYMPATH}, {1, "256"}, {2, "255"},
};
static const u8 SEQV[] = {SEQ};
#define NSEQ ((u32)sizeof SEQV)
static u32 g_pos;
#if MODEL
static int fopen_outcome(u8 *name, int wr)
{
  if (name == (u8 *)MENU[4].arg || name == (u8 *)MENU[7].arg) return 0;       /* does not exist / directory missing */
  (void)wr; return 1;
}
static int64_t strtol_value(u8 *s)
{
  u32 i = 0, nd = 0; int neg = 0; int64_t v = 0;
  if (s[i] == '-') { neg = 1; i++; }
  for (; i < 12 && s[i] >= '0' && s[i] <= '9'; i++, nd++) v = v * 10 + (s[i] - '0');
  strtol_consumed = nd ? i : 0; strtol_erange = 0;
  return neg ? -v : v;
}
u32 X_getopt_long(u32 argc, u8 *argv, u8 *so, u8 *lo, u8 *idx)
{
  (void)argc; (void)argv; (void)so; (void)lo; (void)idx;
  if (g_pos >= NSEQ) return 0xffffffffu;
  u8 k = SEQV[g_pos++];
  X_G_optarg = (u8 *)MENU[k].arg;
  X_G_optind++;
  return (u32)MENU[k].c;
}
#endif
void harness(void)
{
  LOAD_INPUTS();
  for (int i = 0; i < 130; i++) LONGPATH[i] = 'p';
  LONGPATH[130] = 0;
#if !MODEL
  for (u32 i = 0; i < WPATHLEN; i++) if (IN.path[i] < 0x21 || IN.path[i] > 0x7e) IN.path[i] = 'a';
#endif
  for (u32 i = 0; i < WPATHLEN; i++) { ASSUME(IN.path[i] >= 0x21 && IN.path[i] <= 0x7e); SYMPATH[i] = (char)(IN.path[i] == '/' && !MODEL ? '_' : IN.path[i]); }
  SYMPATH[WPATHLEN] = 0;
  global_ctors();
  /* what the sequence asks for */
  int mode = 0, modes = 0, has_in = 0, in_ok = 0, has_out = 0, out_ok = 0, has_key = 0, key_ok = 0, bad = 0, nc = 0, nh = 0; const char *in_name = "";
  for (u32 i = 0; i < NSEQ && !bad; i++) {
    u32 k = SEQV[i]; int c = MENU[k].c;
    if (c == 'e' || c == 'd' || c == 'v' || c == 'V' || c == 'h') { if (modes) bad = 1; mode = c; modes++; }
    else if (c == 'i') { has_in = 1; in_ok = k != 4; in_name = MENU[k].arg; if (!in_ok) bad = 1; }
    else if (c == 'o') { has_out = 1; out_ok = k != 7; if (!out_ok) bad = 1; }
    else if (c == 'k') { has_key = 1; key_ok = k == 8; if (!key_ok) bad = 1; }
    else if (c == 1) { if (nc || k != 12) bad = 1; nc++; }
    else if (c == 2) { if (nh || k != 14) bad = 1; nh++; }
    else if (c == 'n') ;
    else bad = 1;
  }
  int runs = !bad && ((mode == 'e' && has_in) || (mode == 'd' && has_in && has_key && has_out) || (mode == 'v' && has_in && has_key));
  int info = !bad && (mode == 'V' || mode == 'h');
  u32 diag0 = diag;
#if MODEL
  u8 inbytes[8] = {0};
  F_IN = envf_open_in(inbytes, 8); F_OUT = envf_open_out(64);
  file_size_value = IN.fsize;
  { extern u64 env_strlen_hint; extern u8 *env_strlen_hint_ptr; env_strlen_hint = WPATHLEN; env_strlen_hint_ptr = (u8 *)SYMPATH; }
  u8 *argv[2] = {(u8 *)"Wencry", 0};
  u32 ret = vf_main(1 + NSEQ, (u8 *)argv);
  DIAG_END();
#else
  native_files();
  { u8 b[8] = {0}; put_file(LONGPATH, b, 8); put_file(SYMPATH, b, 8); }
  char *argv[2 * NSEQ + 3]; int argc = 0;
  argv[argc++] = "Wencry";
  for (u32 i = 0; i < NSEQ; i++) {
    u32 k = SEQV[i]; int c = MENU[k].c;
    static char sh[32][3];
    if (c == 1) argv[argc++] = "--cmode"; else if (c == 2) argv[argc++] = "--hmode"; else if (c == '?') argv[argc++] = "-x";
    else { sh[i][0] = '-'; sh[i][1] = (char)c; sh[i][2] = 0; argv[argc++] = sh[i]; }
    if (MENU[k].arg) argv[argc++] = (char *)((mode == 'd' || mode == 'v') && k == 3 ? ((IN.opres & 1) ? "valid.wenc" : "junk.bin") : MENU[k].arg);
  }
  argv[argc] = 0;
  if (mode == 'e' && runs) ASSUME(IN.opres & 1);
  DIAG_BEGIN();
  u32 ret = vf_main((u32)argc, (u8 *)argv);
  DIAG_END();
#endif
  if (info) CHECK(ret == 0, "version / help exit 0");
  else if (runs) CHECK((ret == 0) == ((IN.opres & 1) != 0), "exit status 0 exactly when the requested operation ran and succeeded");
  else { CHECK(ret != 0, "a command line that cannot be carried out exits non-zero"); CHECK(diag > diag0, "every rejected command line prints a diagnostic"); }
#if MODEL
  CHECK(rc_ops == (u32)(runs ? 1 : 0), "the operation runs exactly when the command line is complete and valid");
  if (runs) CHECK(rc_kind == (u32)mode, "the requested operation runs");
  if (runs && mode == 'e' && !has_out) {
    CHECK(fopen_w == 1, "-e without -o opens one output file");
    const char *p = in_name;
    u32 n = 0; for (; p[n]; n++) CHECK(fopen_wname[n] == (u8)p[n], "default output name starts with the input path");
    CHECK(fopen_wname[n] == '.' && fopen_wname[n + 1] == 'w' && fopen_wname[n + 2] == 'e' && fopen_wname[n + 3] == 'n' && fopen_wname[n + 4] == 'c' && fopen_wname[n + 5] == 0, "default output name = input path + \".wenc\"");
  }
#endif
  WITNESS_POINT();
}
#endif
#else
#error "select a harness"
#endif
HARNESS_MAIN
