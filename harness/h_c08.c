/* C08 - the authentication tag is RFC 2104 HMAC over [pos, EOF), compared in full, stored at offset 10.
   HT: hash mode 0..2.  The compression functions are uninterpreted (stubs_hash.h); C07 ties them to the standards. */
#include "vharness.h"
#include "env_file.h"
#include "stubs_hash.h"
#ifndef HT
#define HT 0
#endif
#define HLEN (HT == 0 ? 20 : HT == 1 ? 16 : 32)
u8 *vf_hmac_new(void);
void vf_hmac_get(u8 *m, u8 htype, u8 *key, u8 *fp, u8 *out);
u32 vf_hmac_cmp(u8 *m, u8 htype, u8 *key, u8 *fp, u8 *tag);
void vf_hmac_write(u8 *m, u8 htype, u8 *fp, u8 *key, u8 hashMark, u8 writeMark);
u8 vf_hmac_len(u8 *m);
void X_wencry_verif_round(u32 a, u32 r, u8 *s) {}

#if defined(H_VALUE) || defined(H_CMP)
/* FLEN: file length, POS: file position when the MAC is requested (both concrete per query; contents, key, tag symbolic) */
struct in_t { u8 key[16]; u8 file[FLEN + 1]; u8 tag[64]; } IN;
void harness(void)
{
  LOAD_INPUTS();
  u8 key[16], out[64], ref[32];
  memcpy(key, IN.key, 16);
  u8 *f = envf_open_in(IN.file, FLEN);
  envf_seek(f, POS);
  u8 *m = vf_hmac_new();
  sref_hmac(HT, IN.key, IN.file + POS, FLEN - POS, ref);
#ifdef H_VALUE
  u8 *o = env_alloc(HLEN);                      /* exactly hlen bytes may be written */
  vf_hmac_get(m, HT, key, f, o);
  CHECK(vf_hmac_len(m) == HLEN, "tag length = digest length");
  for (int i = 0; i < HLEN; i++) CHECK(o[i] == ref[i], "tag equals RFC 2104 HMAC over the bytes from the current position to EOF");
  CHECK(envf_nwrites(f) == 0, "computing the tag does not write to the file");
#else
  /* candidate tag = true tag xor an arbitrary difference pattern (so that a counterexample means the same thing on the real build,
     where the hash is the real one): all 2^512 candidate tag fields are still covered */
  u8 cand[64];
  int eq = 1;
#ifdef CRASHTAG
  /* C13: the tag field of an interrupted encryption is zero, or (crash inside the 20..32-byte tag write) the first J bytes of the
     true tag followed by zeros, J < hlen.  Such a field may be accepted only if the missing tag bytes are themselves zero (A-ZERO). */
  u32 J = IN.tag[0];
  ASSUME(J < HLEN);
#define MKCAND() do { eq = 1; for (int i = 0; i < 64; i++) cand[i] = (u8)((i < HLEN && (u32)i < J) ? ref[i] : 0); \
                      for (int i = 0; i < HLEN; i++) if ((u32)i >= J && ref[i] != 0) eq = 0; } while (0)
#define CMPMSG "a partially written tag field is accepted only if the missing tag bytes are zero"
#else
  for (int i = 0; i < HLEN; i++) if (IN.tag[i] != 0) eq = 0;
#define MKCAND() do { for (int i = 0; i < 64; i++) cand[i] = (u8)((i < 32 ? ref[i] : 0) ^ IN.tag[i]); } while (0)
#define CMPMSG "comparison accepts iff every tag byte matches"
#endif
#if !MODEL
  /* native replay: a counterexample may depend on a property of the tag VALUE (e.g. a zero byte) that the uninterpreted hash could
     choose freely; search the 65536 keys that differ in the last two bytes for one whose real tag shows the same wrong verdict */
  for (u32 v = 0; v < 65536; v++) {
    key[14] = (u8)(IN.key[14] ^ (v >> 8)); key[15] = (u8)(IN.key[15] ^ v);
    u8 k2[16]; memcpy(k2, key, 16);
    sref_hmac(HT, k2, IN.file + POS, FLEN - POS, ref);
    MKCAND();
    u8 *f2 = envf_open_in(IN.file, FLEN); envf_seek(f2, POS);
    u32 r2 = vf_hmac_cmp(m, HT, key, f2, cand);
    envf_release(f2);
    CHECK((r2 != 0) == (eq != 0), CMPMSG);
  }
  memcpy(key, IN.key, 16);
  sref_hmac(HT, IN.key, IN.file + POS, FLEN - POS, ref);
#endif
  MKCAND();
  u32 r = vf_hmac_cmp(m, HT, key, f, cand);
  CHECK((r != 0) == (eq != 0), CMPMSG);
#endif
  WITNESS_POINT();
}
#elif defined(H_WRITE)
/* writeFileHmac(hashMark=48, writeMark=10): one write of hlen bytes at offset 10 carrying HMAC(file[48..EOF)), nothing else changes */
struct in_t { u8 key[16]; u8 file[FLEN + 1]; } IN;
void harness(void)
{
  LOAD_INPUTS();
  u8 key[16], ref[32];
  memcpy(key, IN.key, 16);
  u8 *f = envf_open_rw(IN.file, FLEN, FLEN + 64);
  u8 *m = vf_hmac_new();
  sref_hmac(HT, IN.key, IN.file + 48, FLEN - 48, ref);
  vf_hmac_write(m, HT, f, key, 48, 10);
  CHECK(envf_nwrites(f) == 1, "exactly one write");
  CHECK(envf_write_off(f, 0) == 10 && envf_write_len(f, 0) == HLEN, "tag written at offset 10, hlen bytes");
  CHECK(envf_len(f) == FLEN, "file length unchanged");
  for (u32 i = 0; i < FLEN; i++) {
    if (i >= 10 && i < 10 + HLEN) CHECK(envf_byte(f, i) == ref[i - 10], "stored tag = HMAC over everything from offset 48 to the end");
    else CHECK(envf_byte(f, i) == IN.file[i], "bytes outside the tag field unchanged");
  }
  WITNESS_POINT();
}
#else
#error "select a harness"
#endif
HARNESS_MAIN
