/* Refinement obligations: the real synchronisation code (protocol unit, -fno-inline) against harness/model_proto.h.
   Sequential symbolic checks: arbitrary start states, arbitrary outcomes of the primitives. */
#include "vharness.h"
#include "model_proto.h"
u8 *vf_ctrl_new(void); void vf_ctrl_set_update(u8 *c); void vf_ctrl_set_ready(u8 *c, u32 load); void vf_ctrl_wait_ready(u8 *c); void vf_ctrl_wait_update(u8 *c);
u32 vf_ctrl_cmpstate(u8 *c, u32 s); u32 vf_haslive(void); u32 vf_ctrl_state(u8 *c); void vf_ctrl_set_state(u8 *c, u32 s); u8 *vf_ctrl_state_addr(u8 *c);
u8 *vf_ctrl_mutex(u8 *c); u8 *vf_ctrl_cv_ready(u8 *c); u8 *vf_ctrl_cv_update(u8 *c); u8 vf_live_get(void); void vf_live_set(u8 v); u8 *vf_live_addr(void);
u8 *vf_iob_new(void); u8 *vf_iob_get_entry(u8 *b); u8 *vf_iob_block(u8 *b, u32 i); void vf_iob_set(u8 *b, u32 total, u32 now, u32 tail, u32 isfinal); u32 vf_iob_now(u8 *b); u32 vf_iob_total(u8 *b);
void vf_proto_setup(u8 threads, u32 pad); u8 *vf_req(u8 id); void vf_bg_buffer_update(void); u32 vf_bg_turn_iter(void); void vf_bg_set_turn(u32 t); void vf_bg_set_over(u32 o);
u32 vf_bg_over(void); u32 vf_bg_turn(void); u8 *vf_bg_ctrl(void); u8 *vf_bg_buflst(void); u32 vf_ctrl_size(void); u32 vf_iobuffer_size(void); u32 vf_buf_sz(void);
void vf_proto_io(void); void vf_proto_worker(u8 id, u8 *m); u8 *vf_markmode_new(void);
#ifndef THREADS
#define THREADS 3
#endif
enum { E_LOCK = 1, E_UNLOCK, E_WAIT, E_NOTIFY, E_CMP, E_GET, E_SETUPD, E_WAITRDY, E_WAITUPD, E_SETRDY, E_HASLIVE, E_LOAD, E_EXPORT, E_PRINT, E_RUNCRY, E_REQ, E_BUFUPD, E_TURNITER };
#define LOGN 24
struct ev { u8 kind; u8 a; u8 b; };
static struct ev LOGR[LOGN], LOGM[LOGN];
static u32 nr, nm, side;          /* side 0: real code is running, 1: model */
static void lg(u8 kind, u8 a, u8 b)
{
  if (side == 0) { CHECK(nr < LOGN, "event log capacity"); if (nr < LOGN) { LOGR[nr].kind = kind; LOGR[nr].a = a; LOGR[nr].b = b; } nr++; }
  else { if (nm < LOGN) { LOGM[nm].kind = kind; LOGM[nm].a = a; LOGM[nm].b = b; } nm++; }
}
static void same_logs(void)
{
  CHECK(nr == nm, "real code performs the same number of protocol operations as the model skeleton");
  for (u32 i = 0; i < LOGN; i++) if (i < nr && i < nm)
    CHECK(LOGR[i].kind == LOGM[i].kind && LOGR[i].a == LOGM[i].a && LOGR[i].b == LOGM[i].b, "real code performs the same protocol operation, on the same buffer, with the same argument, as the model skeleton");
}
struct in_t { u8 s0; u8 live; u8 load; u8 wake[4]; u8 bits[16]; u8 id; u8 turn; u8 over; u8 nturn[8]; u8 total; u8 now; } IN;
static u32 held;                  /* is the buffer's mutex held (L1) */
static u8 *CUR;                   /* the bufferctrl under test (L1) */
static u32 nbits, nwake;
static u8 obit(void) { u8 b = nbits < 16 ? (IN.bits[nbits] & 1) : 0; nbits++; return b; }

#if defined(H_LEAF)
/* ================= L1: leaves.  LEAF: 1 set_update, 2 set_ready, 3 wait_ready, 4 wait_update, 5 cmpstate/haslive, 6 get_entry */
void rs_access(u8 *p, u64 n, int w)
{
  if (CUR == 0) return;
  int is_state = p == vf_ctrl_state_addr(CUR), is_live = p == vf_live_addr();
  if (is_state || is_live) {
#if LEAF <= 4
    CHECK(held == 1, "state / live_num are read and written only while holding the buffer's mutex");
#else
    CHECK(w == 0, "unsynchronised accesses (cmpstate, haslive) only read");
#endif
  }
}
u32 X_pthread_mutex_lock(u8 *m) { CHECK(m == vf_ctrl_mutex(CUR), "locks this buffer's own mutex"); CHECK(held == 0, "no nested locking"); held = 1; lg(E_LOCK, 0, 0); return 0; }
u32 X_pthread_mutex_unlock(u8 *m) { CHECK(m == vf_ctrl_mutex(CUR) && held == 1, "unlocks the mutex it holds"); held = 0; lg(E_UNLOCK, 0, 0); return 0; }
void X__ZNSt18condition_variable10notify_allEv(u8 *cv)
{
  CHECK(held == 1, "notify under the lock");
  lg(E_NOTIFY, cv == vf_ctrl_cv_ready(CUR) ? 1 : cv == vf_ctrl_cv_update(CUR) ? 2 : 0, 0);
}
void X__ZNSt18condition_variable4waitERSt11unique_lockISt5mutexE(u8 *cv, u8 *lk)
{
  CHECK(held == 1 && *(u8 **)lk == vf_ctrl_mutex(CUR), "waits with this buffer's mutex held");
  lg(E_WAIT, cv == vf_ctrl_cv_ready(CUR) ? 1 : cv == vf_ctrl_cv_update(CUR) ? 2 : 0, 0);
  u8 w = IN.wake[nwake < 4 ? nwake : 3] & 3; nwake++;
  u8 *c = CUR; CUR = 0; vf_ctrl_set_state(c, w); CUR = c;            /* while waiting, other threads may have changed the state arbitrarily */
}
/* timed waits (wait_for / wait_until): the same havoc, and the time-out may have fired */
u32 X_pthread_cond_clockwait(u8 *cv, u8 *m, u32 clk, u8 *ts)
{
  (void)clk; (void)ts;
  CHECK(held == 1 && m == vf_ctrl_mutex(CUR), "waits with this buffer's mutex held");
  lg(E_WAIT, cv == vf_ctrl_cv_ready(CUR) ? 1 : cv == vf_ctrl_cv_update(CUR) ? 2 : 0, 0);
  u8 w = IN.wake[nwake < 4 ? nwake : 3] & 3; nwake++;
  u8 *c = CUR; CUR = 0; vf_ctrl_set_state(c, w); CUR = c;
  return (IN.wake[nwake < 4 ? nwake : 3] & 4) ? 110u : 0u;
}
u32 X_pthread_cond_timedwait(u8 *cv, u8 *m, u8 *ts) { return X_pthread_cond_clockwait(cv, m, 0, ts); }
void X__ZNSt18condition_variableC1Ev(u8 *cv) {}
void X__ZNSt18condition_variableD1Ev(u8 *cv) {}
void harness(void)
{
  LOAD_INPUTS();
  ASSUME(IN.s0 < 4);
  u8 *c = vf_ctrl_new();
  vf_ctrl_set_state(c, IN.s0);
  vf_live_set(IN.live);
  CUR = c; side = 0; nr = 0;
  u32 st = IN.s0; u8 live = IN.live;
#if LEAF == 1
  vf_ctrl_set_update(c);
  int notified = m_set_update(&st);
  CHECK(vf_ctrl_state(c) == st && vf_live_get() == live, "set_update: READY -> UPDATING, anything else unchanged");
  CHECK(nr == (notified ? 3u : 2u) && LOGR[0].kind == E_LOCK && LOGR[nr - 1].kind == E_UNLOCK, "set_update: one critical section");
  if (notified) CHECK(LOGR[1].kind == E_NOTIFY && LOGR[1].a == 2, "set_update notifies cv_update (the I/O thread) iff it handed the buffer back");
#elif LEAF == 2
  vf_ctrl_set_ready(c, IN.load & 1);
  m_set_ready(&st, &live, IN.load & 1);
  CHECK(vf_ctrl_state(c) == st && vf_live_get() == live, "set_ready: READY if data was loaded, else INV and one live buffer less");
  CHECK(nr == 3 && LOGR[0].kind == E_LOCK && LOGR[1].kind == E_NOTIFY && LOGR[1].a == 1 && LOGR[2].kind == E_UNLOCK, "set_ready: one critical section that notifies cv_ready (the worker)");
#elif LEAF == 3 || LEAF == 4
  /* termination of the wait loop needs a wake-up after which the condition holds (supplied within 3 wake-ups) */
  u32 first = 4;
  { u32 v[4] = {IN.s0, IN.wake[0] & 3u, IN.wake[1] & 3u, IN.wake[2] & 3u};
    for (int i = 3; i >= 0; i--) if (LEAF == 3 ? m_wait_ready_ok(v[i]) : m_wait_update_ok(v[i])) first = (u32)i; }
  ASSUME(first < 4);
#if LEAF == 3
  vf_ctrl_wait_ready(c);
#else
  vf_ctrl_wait_update(c);
#endif
  u32 fin = vf_ctrl_state(c);
  CHECK(LEAF == 3 ? m_wait_ready_ok(fin) : m_wait_update_ok(fin), "wait returns only in a state it waits for (READY/INV resp. UPDATING/EMPTY)");
  CHECK(vf_live_get() == live, "wait does not change live_num");
  CHECK(nr == first + 2 && LOGR[0].kind == E_LOCK && LOGR[nr - 1].kind == E_UNLOCK, "wait: lock, one wait per unsatisfied check, unlock (blocks nowhere else)");
  for (u32 i = 1; i + 1 < nr && i < LOGN; i++) CHECK(LOGR[i].kind == E_WAIT && LOGR[i].a == (LEAF == 3 ? 1 : 2), "waits on its own condition variable (cv_ready / cv_update)");
  CHECK(fin == (first == 0 ? IN.s0 : (IN.wake[first - 1] & 3u)), "wait does not write the state");
#elif LEAF == 5
  u32 q = IN.load & 3;
  CHECK((vf_ctrl_cmpstate(c, q) != 0) == (IN.s0 == q), "cmpstate(s) == (state == s)");
  CHECK((vf_haslive() != 0) == (IN.live != 0), "haslive() == (live_num != 0)");
  CHECK(nr == 0 && vf_ctrl_state(c) == IN.s0 && vf_live_get() == IN.live, "pure reads: no lock, no write");
#elif LEAF == 6
  u32 bsz = vf_buf_sz();
  ASSUME(IN.total <= bsz && IN.now <= IN.total);
  u8 *b = vf_iob_new();
  vf_iob_set(b, IN.total, IN.now, 0, 0);
  u8 *e = vf_iob_get_entry(b);
  if (IN.now < IN.total) { CHECK(e == vf_iob_block(b, IN.now) && vf_iob_now(b) == (u32)IN.now + 1, "get_entry hands out block `now` and advances the cursor"); }
  else CHECK(e == 0 && vf_iob_now(b) == IN.now, "get_entry returns NULL when the chunk is used up");
  CHECK(vf_iob_total(b) == IN.total && nr == 0, "get_entry changes nothing else, takes no lock");
#endif
  CHECK(held == 0, "mutex released on return");
  WITNESS_POINT();
}
#elif defined(H_SKEL)
/* ================= L2: control skeletons with the leaves replaced by oracles (ir2c --replace).  SKEL: 1 require_buffer_entry,
   2 multiruncrypt_file, 3 buffer_update, 4 turn_iter, 5 run_buffer */
static unsigned cidx(u8 *c) { u8 *b = vf_bg_ctrl(); return (unsigned)(((u64)(c - b)) / vf_ctrl_size()); }
static unsigned bidx(u8 *p) { u8 *b = vf_bg_buflst(); return (unsigned)(((u64)(p - b)) / vf_iobuffer_size()); }
static u8 DUMMY[16];
/* oracles: log the call, answer from the symbolic outcome vector */
u8 o_cmpstate(u8 *c, u32 st) { lg(E_CMP, (u8)cidx(c), (u8)st); return obit(); }
u8 *o_get_entry(u8 *b) { lg(E_GET, (u8)bidx(b), 0); return obit() ? (u8 *)DUMMY : (u8 *)0; }
void o_set_update(u8 *c) { lg(E_SETUPD, (u8)cidx(c), 0); }
void o_wait_ready(u8 *c) { lg(E_WAITRDY, (u8)cidx(c), 0); }
void o_wait_update(u8 *c) { lg(E_WAITUPD, (u8)cidx(c), 0); }
void o_set_ready(u8 *c, u8 load) { lg(E_SETRDY, (u8)cidx(c), load); }
u8 o_haslive(void) { lg(E_HASLIVE, 0, 0); return obit(); }
u32 o_load(u8 *b, u8 *fin, u8 pad) { lg(E_LOAD, (u8)bidx(b), pad); u8 x = obit(), y = obit(); return x ? M_FULL : y ? M_FINAL : M_NODATA; }
void o_export(u8 *b, u8 *fout, u8 pad) { lg(E_EXPORT, (u8)bidx(b), pad); }
void o_printload(u8 *fn, u8 *s, u64 n) { lg(E_PRINT, 0, 0); }
void stub_to_string(u8 *sret, u32 v) { *(u8 **)sret = sret + 16; *(u64 *)(sret + 8) = 0; sret[16] = 0; }
void stub_strplus(u8 *sret, u8 *l, u8 *r) { *(u8 **)sret = sret + 16; *(u64 *)(sret + 8) = 0; sret[16] = 0; }
u8 *o_require(u8 *self, u8 id) { lg(E_REQ, id, 0); return obit() ? (u8 *)DUMMY : (u8 *)0; }
void X_vf_mark(u8 *self, u8 *block) { lg(E_RUNCRY, 0, block == DUMMY); }
void o_buffer_update(u8 *self, u8 *fn) { lg(E_BUFUPD, (u8)vf_bg_turn(), 0); }
u8 o_turn_iter(u8 *self) { lg(E_TURNITER, 0, 0); u8 r = obit(); if (r) { u8 t = IN.nturn[nwake < 8 ? nwake : 7] % THREADS; nwake++; vf_bg_set_turn(t); } return r; }
/* model-side primitives: same log, same outcome vector */
static int mp_cmp(unsigned i, unsigned st) { lg(E_CMP, (u8)i, (u8)st); return obit(); }
static int mp_get(unsigned i) { lg(E_GET, (u8)i, 0); return obit(); }
static void mp_setupd(unsigned i) { lg(E_SETUPD, (u8)i, 0); }
static void mp_waitrdy(unsigned i) { lg(E_WAITRDY, (u8)i, 0); }
static void mp_waitupd(unsigned i) { lg(E_WAITUPD, (u8)i, 0); }
static void mp_setrdy(unsigned i, int load) { lg(E_SETRDY, (u8)i, (u8)load); }
static int mp_haslive(void) { lg(E_HASLIVE, 0, 0); return obit(); }
static u8 PAD;
static int mp_load(unsigned i) { lg(E_LOAD, (u8)i, PAD); u8 x = obit(), y = obit(); return x ? M_FULL : y ? M_FINAL : M_NODATA; }
static void mp_export(unsigned i) { lg(E_EXPORT, (u8)i, PAD); }
static void mp_print(void) { lg(E_PRINT, 0, 0); }
static void mp_runcry(unsigned i) { lg(E_RUNCRY, 0, 1); }
static int mp_require(unsigned id) { lg(E_REQ, (u8)id, 0); return obit(); }
static const struct m_prims MP = {mp_cmp, mp_get, mp_setupd, mp_waitrdy, mp_waitupd, mp_setrdy, mp_haslive, mp_load, mp_export, mp_print, mp_runcry};
/* locks taken by get_instance() etc. are irrelevant here */
u32 X_pthread_mutex_lock(u8 *m) { return 0; }
u32 X_pthread_mutex_unlock(u8 *m) { return 0; }
void X__ZNSt18condition_variableC1Ev(u8 *cv) {}
void X__ZNSt18condition_variableD1Ev(u8 *cv) {}
void X__ZNSt18condition_variable10notify_allEv(u8 *cv) { CHECK(0, "skeleton notifies only through its leaves"); }
void X__ZNSt18condition_variable4waitERSt11unique_lockISt5mutexE(u8 *cv, u8 *lk) { CHECK(0, "skeleton waits only through its leaves"); }
u32 X_pthread_cond_clockwait(u8 *cv, u8 *m, u32 clk, u8 *ts) { CHECK(0, "skeleton waits only through its leaves"); return 0; }
u32 X_pthread_cond_timedwait(u8 *cv, u8 *m, u8 *ts) { CHECK(0, "skeleton waits only through its leaves"); return 0; }
void rs_access(u8 *p, u64 n, int w) {}
void harness(void)
{
  LOAD_INPUTS();
  ASSUME(IN.id < THREADS && IN.turn < THREADS);
  PAD = IN.load & 1;
  vf_proto_setup(THREADS, PAD);
  side = 0; nr = 0; nbits = 0; nwake = 0;
#if SKEL == 1
  u8 *e = vf_req(IN.id);
  side = 1; nm = 0; nbits = 0;
  int got = m_require(&MP, IN.id);
  CHECK((e != 0) == (got != 0), "require_buffer_entry returns a block exactly when the model does");
#elif SKEL == 2
  /* at most 3 blocks, then the oracle must answer NULL */
  for (int i = 0; i < 16; i++) if (i >= 3) ASSUME((IN.bits[i] & 1) == 0);
  vf_proto_worker(IN.id, vf_markmode_new());
  side = 1; nm = 0; nbits = 0;
  m_worker(&MP, IN.id, mp_require, 8);
#elif SKEL == 3
  vf_bg_set_turn(IN.turn); vf_bg_set_over(IN.over & 1);
  vf_bg_buffer_update();
  u32 over_r = vf_bg_over();
  side = 1; nm = 0; nbits = 0;
  int over_m = m_buffer_update(&MP, IN.turn, IN.over & 1);
  CHECK((over_r != 0) == (over_m != 0), "buffer_update: `over` becomes true exactly when the load was not a full chunk");
  CHECK(vf_bg_turn() == IN.turn, "buffer_update leaves `turn` alone");
#elif SKEL == 4
  /* the scan over INV buffers ends within THREADS probes (some buffer is live) */
  { int stop = 0; for (int i = 1; i <= THREADS && i < 16; i++) if ((IN.bits[i] & 1) == 0) stop = 1; ASSUME(stop); }
  vf_bg_set_turn(IN.turn);
  u32 r = vf_bg_turn_iter();
  u32 turn_r = vf_bg_turn();
  side = 1; nm = 0; nbits = 0;
  unsigned turn_m = IN.turn;
  int rm = m_turn_iter(&MP, &turn_m, THREADS, THREADS + 2);
  CHECK((r != 0) == (rm != 0) && turn_r == turn_m, "turn_iter: stop when no buffer is live, else advance round-robin past INV buffers");
#elif SKEL == 5
  /* at most 3 rounds */
  for (int i = 0; i < 16; i++) if (i >= 3) ASSUME((IN.bits[i] & 1) == 0);
  vf_bg_set_turn(IN.turn);
  vf_proto_io();
  side = 1; nm = 0; nbits = 0; nwake = 0;
  { unsigned t = IN.turn; int go;
    do { lg(E_WAITUPD, (u8)t, 0); lg(E_BUFUPD, (u8)t, 0); lg(E_TURNITER, 0, 0); go = obit(); if (go) { t = IN.nturn[nwake < 8 ? nwake : 7] % THREADS; nwake++; } } while (go); }
#endif
  same_logs();
  WITNESS_POINT();
}
#else
#error "select a harness"
#endif
HARNESS_MAIN
