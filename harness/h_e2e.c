/* End-to-end runs of the REAL drivers execute_encrypt / execute_decrypt / execute_verify (header, IV chain, pipeline with real threads
   as step functions under the canonical schedule, tag patch, gate, result plumbing) with
     - the block cipher replaced by an invertible marker  block ^= mask(stream, sequence number)   (C09/C10 decide the cipher),
     - the compression functions uninterpreted (C07).
   Serves C01 (round trip), C02 (file format), C13 (write order / crash points), C15 (several operations in one process), C18 (stream IVs).
   Parameters: THREADS, PLEN (plaintext bytes), CT (cipher mode byte), HT (hash mode), SEEDLEN, K (steps per operation). */
#include "vharness.h"
#include "env_file.h"
#include "env_sched.h"
#include "stubs_hash.h"
#ifndef THREADS
#define THREADS 1
#endif
#ifndef K
#define K 120
#endif
#ifndef CT
#define CT 1
#endif
#ifndef HT
#define HT 0
#endif
#ifndef SEEDLEN
#define SEEDLEN 5
#endif
#define NT (THREADS + 1)
#define HLEN (HT == 0 ? 20 : HT == 1 ? 16 : 32)
#define CLEN (48 + 20 * THREADS + 16 * (PLEN / 16 + 1))

u8 *vf_rc_new(u8 *fin, u8 *out, u8 *key, u32 ctype, u32 htype, u8 threads);
void vf_rc_encrypt_init(int tid, u8 *r, u64 fsize, u8 *r_buf); int vf_rc_encrypt_step(int tid); int vf_rc_encrypt_enabled(int tid);
void vf_rc_decrypt_init(int tid, u8 *r, u64 fsize); int vf_rc_decrypt_step(int tid); int vf_rc_decrypt_enabled(int tid);
u32 vf_rc_encrypt_result(int tid); u32 vf_rc_decrypt_result(int tid);
int _Z18multiruncrypt_filehR7Aesmode_step(int tid);
int _Z18multiruncrypt_filehR7Aesmode_enabled(int tid);
u32 vf_bg_instance_null(void); u32 vf_bg_live(void); u32 vf_buf_sz(void);
void vf_mode_getiv(u8 *m, u8 *out16);
u32 vf_keyhandle_initkey_off(void);
void X_wencry_verif_round(u32 a, u32 r, u8 *s) {}
void rs_access(u8 *p, u64 n, int w) { (void)p; (void)n; (void)w; }
/* tag comparison (target of ir2c --replace for hmac::cmphmac): recompute the tag with the REAL hmac::gethmac and ASSERT that it equals the
   stored one instead of branching on a symbolic comparison (C08 decides the comparison itself: accepts iff all bytes match) */
void vf_hmac_get(u8 *m, u8 htype, u8 *key, u8 *fp, u8 *out);
static u32 tag_checks;
u8 stub_cmphmac(u8 *self, u8 htype, u8 *key, u8 *fp, u8 *tag, u64 fsize)
{
  u8 out[64];
  vf_hmac_get(self, htype, key, fp, out);
  u32 hl = htype == 0 ? 20 : htype == 1 ? 16 : 32;
  for (u32 i = 0; i < 32; i++) if (i < hl) CHECK(out[i] == tag[i], "the authentic encrypted file verifies: stored tag == recomputed HMAC");
  tag_checks++;
  return 1;
}
void stub_keyhandle(u8 *self, u8 *key) { memcpy(self + vf_keyhandle_initkey_off(), key, 16); }

struct in_t { u8 key[16]; u8 seed[SEEDLEN + 1]; u8 plain[PLEN + 1]; u8 junk[80]; u8 crash_at; } IN;

#if !MODEL
/* ---------------- native replay: the real build runs real threads, real AES and real hashes; the expected file is then the
   full reference (FIPS-197 + SP 800-38A + RFC 2104), computed here */
#include "ref_aes.h"
u32 vf_rc_encrypt(u8 *r, u64 fsize, u8 *r_buf); u32 vf_rc_decrypt(u8 *r, u64 fsize);
static void nat_xor16(u8 *a, const u8 *b) { for (int i = 0; i < 16; i++) a[i] ^= b[i]; }
static void nat_mode_step(int type, const u8 *key, u8 *reg, u8 *blk)
{
  u8 t[16], o[16];
  switch (type) {
  case 0: ref_aes128_encrypt(key, blk, o); memcpy(blk, o, 16); break;
  case 1: nat_xor16(blk, reg); ref_aes128_encrypt(key, blk, o); memcpy(blk, o, 16); memcpy(reg, blk, 16); break;
  case 2: ref_aes128_encrypt(key, reg, t); nat_xor16(blk, t); for (int i = 15; i >= 0; i--) { reg[i]++; if (reg[i]) break; } break;
  case 3: ref_aes128_encrypt(key, reg, t); nat_xor16(blk, t); memcpy(reg, blk, 16); break;
  case 4: ref_aes128_encrypt(key, reg, o); memcpy(reg, o, 16); nat_xor16(blk, reg); break;
  }
}
#endif
/* ---- invertible marker cipher */
static u8 *stream_obj[THREADS];
static u16 seqno[THREADS];
static u8 first_reg[THREADS][16];
static u32 cipher_calls;
static u8 mask(u32 s, u32 sq, u32 i) { return (u8)(17 * s + 31 * sq + i + 1); }
void xmark_runcry(u8 *self, u8 *block)
{
#if !MODEL
  return;
#else
  CHECK(rs_cur >= 1 && rs_cur < NT, "cipher streams run on worker threads");
  u32 s = rs_wid[rs_cur < NT ? rs_cur : 0];
  CHECK(s < THREADS, "worker id in range");
  if (s >= THREADS) return;
  if (seqno[s] == 0) {
    /* every runcry() writes its own object (mode register and the AES working state aeshandle::w; frame condition of C10) outside any
       critical section, so two workers driving one object race on it: the result would depend on the interleaving (C03) */
    for (u32 o = 0; o < THREADS; o++) if (o != s && seqno[o] != 0) CHECK(stream_obj[o] != self, "no two workers drive the same stream object (runcry mutates its object without synchronisation)");
    stream_obj[s] = self; vf_mode_getiv(self, first_reg[s]);
  }
  CHECK(stream_obj[s] == self, "worker j always drives the same stream object j");
  for (u32 i = 0; i < 16; i++) block[i] ^= mask(s, seqno[s], i);
  seqno[s]++;
  cipher_calls++;
#endif
}
/* ---- scheduler (canonical: run a thread until it blocks) */
static int op;                                   /* 1 encrypt, 2 decrypt running as thread 0 */
#if MODEL
static int t_enabled(int t)
{
  if (!rs_started[t] || rs_done[t]) return 0;
  if (t == 0) return op == 1 ? vf_rc_encrypt_enabled(0) : vf_rc_decrypt_enabled(0);
  return _Z18multiruncrypt_filehR7Aesmode_enabled(t);
}
static void t_step(int t)
{
  rs_cur = t;
  int st = t == 0 ? (op == 1 ? vf_rc_encrypt_step(0) : vf_rc_decrypt_step(0)) : _Z18multiruncrypt_filehR7Aesmode_step(t);
  if (st == RS_DONE) rs_done[t] = 1;
}
static int all_done(void)
{
  if (!rs_done[0]) return 0;
  for (int t = 1; t < RS_MAX_THREADS; t++) if (rs_started[t] && !rs_done[t]) return 0;
  return 1;
}
#endif
static void run_to_completion(void)
{
#if MODEL
  int c = 0;
  for (int s = 0; s < K; s++) {
    if (all_done()) break;
    int found = 0;
    for (int j = 0; j < NT && !found; j++) { int t = (c + j) % NT; if (t_enabled(t)) { c = t; found = 1; } }
    CHECK(found, "deadlock: an unfinished thread exists and no thread can run");
    if (!found) break;
    t_step(c);
  }
  CHECK(all_done(), "unwinding assertion: step bound K too small for this configuration");
#endif
}
static void reset_threads(void)
{
#if MODEL
  for (int t = 0; t < RS_MAX_THREADS; t++) { rs_started[t] = t == 0; rs_done[t] = 0; rs_held[t] = 0; }
  rs_nthreads = 1;
#endif
  for (int j = 0; j < THREADS; j++) { seqno[j] = 0; stream_obj[j] = 0; }
}
static const u8 MAGIC[8] = {0xC3, 0xA5, 0xC3, 0xA5, 0xC3, 0xA5, 0xC3, 0xA5};

void harness(void)
{
  LOAD_INPUTS();
  u8 key[16], seed[SEEDLEN + 8];
  memcpy(key, IN.key, 16);
  /* boundary-byte obligations: chosen plaintext bytes concrete (values that alias EOF / NUL / newline in careless code: 0xFF, 0xFE -> 0xFF
     under the marker cipher, 0x00, 0x0A) so that a read position that depends on the byte VALUE stays concrete in the query */
#ifdef FIX1_OFF
  IN.plain[FIX1_OFF] = FIX1_VAL;
#endif
#ifdef FIX2_OFF
  IN.plain[FIX2_OFF] = FIX2_VAL;
#endif
#ifdef FIX3_OFF
  IN.plain[FIX3_OFF] = FIX3_VAL;
#endif
#ifdef SEEDFIX
  /* concrete seed with bytes >= 0x80, 0x7f, 0x01, space: code that scans the seed itself (signed char, isprint, ...) keeps a concrete length */
  { static const u8 pat[8] = {0x41, 0xC3, 0x80, 0xFF, 0x7F, 0x01, 0xE9, 0x20}; for (u32 i = 0; i < SEEDLEN; i++) IN.seed[i] = pat[i % 8]; }
#endif
  for (u32 i = 0; i < SEEDLEN; i++) { ASSUME(IN.seed[i] != 0); seed[i] = IN.seed[i]; }     /* r_buf is used up to its first NUL (strlen) */
  seed[SEEDLEN] = 0;
#if MODEL
  { extern u64 env_strlen_hint; extern u8 *env_strlen_hint_ptr; env_strlen_hint = SEEDLEN; env_strlen_hint_ptr = seed; }      /* the seed's length is the concrete parameter SEEDLEN */
#endif
  u32 bsz = vf_buf_sz();
#ifdef PRE_FAIL
  /* C15: a failing operation first (garbage input): must leave no trace in the process */
  {
    /* failure class per query (PRE_FAIL = 1 wrong magic, 2 shorter than the smallest valid file, 3 hash-mode byte out of range), the
       bytes symbolic; the remaining class (wrong tag) and every other rejected input are the reject-gate obligations of C15 */
#if PRE_FAIL == 2
#define JUNKLEN 60
#else
#define JUNKLEN 80
#endif
    u8 junk[80];
    memcpy(junk, IN.junk, 80);
#if PRE_FAIL == 1
    memcpy(junk, MAGIC, 8); junk[3] ^= 0x10; junk[8] = 1; junk[9] = 0;      /* one magic bit wrong (every wrong magic: reject-gate obligations) */
#else
    memcpy(junk, MAGIC, 8); junk[8] = 1;
#if PRE_FAIL == 3
    junk[9] = 3;
#else
    junk[9] = 0;
#endif
#endif
    u8 *g = envf_open_in(junk, JUNKLEN), *go = envf_open_out(16);
    u8 *r0 = vf_rc_new(g, go, key, (u32)-1, (u32)-1, THREADS);
    reset_threads(); op = 2;
#if MODEL
    vf_rc_decrypt_init(0, r0, JUNKLEN);
    run_to_completion();
    CHECK(vf_rc_decrypt_result(0) == 0, "the first operation fails");
#else
    CHECK(vf_rc_decrypt(r0, JUNKLEN) == 0, "the first operation fails");
#endif
    CHECK(envf_nwrites(go) == 0, "failed operation wrote nothing");
    CHECK(vf_bg_instance_null() && vf_bg_live() == 0, "failed operation leaves the process-global pipeline state initial");
  }
#endif
  /* ---------------- encrypt */
  u8 *pin = envf_open_in(IN.plain, PLEN);
  u8 *cout = envf_open_out(CLEN + 32);
  u8 *r1 = vf_rc_new(pin, cout, key, CT, HT, THREADS);
  reset_threads(); op = 1; cipher_calls = 0;
#if MODEL
  vf_rc_encrypt_init(0, r1, PLEN, seed);
  run_to_completion();
  CHECK(vf_rc_encrypt_result(0) != 0, "encryption reports success");
#else
  CHECK(vf_rc_encrypt(r1, PLEN, seed) != 0, "encryption reports success");
#endif
  CHECK(envf_nwrites(pin) == 0, "plaintext file not modified");
  CHECK(envf_closed(pin) && envf_closed(cout), "files closed");
  CHECK(vf_bg_instance_null() && vf_bg_live() == 0, "process-global pipeline state back to initial after encryption");
  if (!IS_REPLAY) CHECK(rs_nthreads == NT, "T workers");
  /* ---- C02: the file is exactly the documented format */
  u32 nblk = PLEN / 16 + 1;
  CHECK(envf_len(cout) == CLEN, "length = 48 + 20T + 16(floor(n/16)+1)");
  static u8 expf[CLEN + 32];
  memset(expf, 0, sizeof expf);
  memcpy(expf, MAGIC, 8); expf[8] = CT; expf[9] = HT;
  {
    u8 ivc[20];
    sref_hash(0, IN.seed, SEEDLEN, ivc);                                   /* iv[0] = SHA1(seed) */
    for (u32 j = 0; j < THREADS; j++) { memcpy(expf + 48 + 20 * j, ivc, 20); u8 nx[20]; sref_hash(0, ivc, 20, nx); memcpy(ivc, nx, 20); }   /* iv[j] = SHA1(iv[j-1]) */
  }
  for (u32 i = 0; i < 16 * nblk; i++) expf[48 + 20 * THREADS + i] = i < PLEN ? IN.plain[i] : (u8)(16 - PLEN % 16);
#if MODEL
  for (u32 b = 0; b < nblk; b++) {
    u32 chunk = b / bsz, s = chunk % THREADS, sq = (chunk / THREADS) * bsz + b % bsz;
    for (u32 i = 0; i < 16; i++) expf[48 + 20 * THREADS + 16 * b + i] ^= mask(s, sq, i);
  }
#else
  { u8 reg[THREADS][16];
    for (u32 j = 0; j < THREADS; j++) memcpy(reg[j], expf + 48, 16);          /* all streams from the first IV, as the format documents */
    for (u32 b = 0; b < nblk; b++) { u32 s = (b / bsz) % THREADS; nat_mode_step(CT, IN.key, reg[s], expf + 48 + 20 * THREADS + 16 * b); } }
#endif
  { u8 tag[32]; sref_hmac(HT, IN.key, expf + 48, CLEN - 48, tag); for (u32 i = 0; i < HLEN; i++) expf[10 + i] = tag[i]; }
  for (u32 i = 0; i < CLEN && i < envf_len(cout); i++) CHECK(envf_byte(cout, i) == expf[i], "encrypted file byte equals the documented format (magic, modes, tag, zero fill, IV chain, padded body dealt round-robin to T streams)");
  if (!IS_REPLAY) CHECK(cipher_calls == nblk, "every padded block went through a cipher stream exactly once (no untransformed plaintext)");
  for (u32 j = 0; j < THREADS; j++) if (seqno[j]) for (u32 i = 0; i < 16; i++)
    CHECK(first_reg[j][i] == expf[48 + i], "every stream starts from the first 16 bytes of the first IV (as the format documents)");
#ifdef CHECK_STREAM_IV
  /* C18: each stream should start from its OWN IV slot */
  for (u32 j = 1; j < THREADS; j++) if (seqno[j]) { int same = 1; for (u32 i = 0; i < 16; i++) if (first_reg[j][i] != expf[48 + 20 * j + i]) same = 0;
    CHECK(same, "stream j starts from IV slot j (stream-iv-binding)"); }
#if !MODEL
  /* on the real build the binding shows in the ciphertext: in CTR/OFB two streams started from the same IV reuse their keystream,
     i.e. C(first block of stream 0) ^ C(first block of stream 1) == P ^ P */
  if ((CT == 2 || CT == 4) && THREADS >= 2 && nblk > bsz) {
    int reuse = 1;
    for (u32 i = 0; i < 16; i++) {
      u8 p0 = IN.plain[i], p1 = (16 * bsz + i) < PLEN ? IN.plain[16 * bsz + i] : (u8)(16 - PLEN % 16);
      if ((u8)(envf_byte(cout, 48 + 20 * THREADS + i) ^ envf_byte(cout, 48 + 20 * THREADS + 16 * bsz + i)) != (u8)(p0 ^ p1)) reuse = 0;
    }
    CHECK(!reuse, "stream j starts from IV slot j (stream-iv-binding): keystream of stream 0 and stream 1 must differ");
  }
#endif
#endif
  /* ---- C13: order of writes to the output */
  {
    u32 nw = envf_nwrites(cout);
    CHECK(nw >= 5, "header fields, IVs, body, tag");
    u64 end = 0;
    for (u32 k = 0; k + 1 < nw && k < ENVF_LOGCAP; k++) {
      CHECK(envf_write_off(cout, k) == end, "all writes before the tag patch are appended in file order (every crash prefix is a prefix of the final file with a zero tag field)");
      end += envf_write_len(cout, k);
    }
    CHECK(end == CLEN, "header and body complete before the tag is written");
    CHECK(envf_write_off(cout, nw - 1) == 10 && envf_write_len(cout, nw - 1) == HLEN, "the last write is the tag at offset 10");
    CHECK(envf_first_read_seq(cout) > envf_write_seq(cout, nw - 2), "the tag is computed (file re-read) only after the last body write");
    CHECK(envf_first_read_seq(cout) < envf_write_seq(cout, nw - 1), "the tag is written after it was computed");
  }
#ifdef ROUNDTRIP
  /* ---------------- decrypt what was written (C01), in the same process (C15) */
  static u8 cbuf[CLEN + 32];
  for (u32 i = 0; i < CLEN; i++) cbuf[i] = envf_byte(cout, i);
  u8 *cin = envf_open_in(cbuf, CLEN);
  u8 *pout = envf_open_out(PLEN + 32);
  u8 *r2 = vf_rc_new(cin, pout, key, (u32)-1, (u32)-1, THREADS);
  reset_threads(); op = 2;
#if MODEL
  vf_rc_decrypt_init(0, r2, CLEN);
  run_to_completion();
  CHECK(vf_rc_decrypt_result(0) != 0, "decryption of the encrypted file reports success");
#else
  CHECK(vf_rc_decrypt(r2, CLEN) != 0, "decryption of the encrypted file reports success");
#endif
  if (!IS_REPLAY) CHECK(tag_checks == 1, "decryption verified the tag before decrypting");
  CHECK(envf_len(pout) == PLEN, "decrypted length equals plaintext length");
  for (u32 i = 0; i < PLEN && i < envf_len(pout); i++) CHECK(envf_byte(pout, i) == IN.plain[i], "decrypt(encrypt(P)) == P");
  CHECK(envf_nwrites(cin) == 0, "ciphertext file not modified");
  CHECK(vf_bg_instance_null() && vf_bg_live() == 0, "process-global pipeline state back to initial after decryption");
#endif
  WITNESS_POINT();
}
HARNESS_MAIN
