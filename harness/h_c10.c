/* C10 - the five mode stream objects equal NIST SP 800-38A; decryptors invert encryptors.
   Induction on the block index: ONE step from an ARBITRARY register state (the symbolic IV), plus a frame condition
   (a step changes nothing in the object but the register and the AES scratch state), so streams of any length are covered.
   AES itself is abstracted by an uninterpreted permutation pair E/D (justified by C09). */
#include "vharness.h"
#include "ref_aes.h"

u8 *vf_mode_new(u8 *key, u8 *iv, u32 isenc, u8 type);
void vf_mode_run(u8 *m, u8 *block);
void vf_mode_getiv(u8 *m, u8 *out16);
void vf_mode_layout(u8 *iv_off, u8 *w_off, u8 *size);

struct in_t { u8 key[16]; u8 iv[20]; u8 x[16]; u8 x2[16]; } IN;

#ifdef __CPROVER__
u64 __CPROVER_uninterpreted_Elo(u64, u64); u64 __CPROVER_uninterpreted_Ehi(u64, u64);
u64 __CPROVER_uninterpreted_Dlo(u64, u64); u64 __CPROVER_uninterpreted_Dhi(u64, u64);
static void E(u8 *b)
{
  u64 a = *(u64 *)b, c = *(u64 *)(b + 8);
  u64 lo = __CPROVER_uninterpreted_Elo(a, c), hi = __CPROVER_uninterpreted_Ehi(a, c);
  __CPROVER_assume(__CPROVER_uninterpreted_Dlo(lo, hi) == a && __CPROVER_uninterpreted_Dhi(lo, hi) == c);   /* D(E(x)) = x */
  *(u64 *)b = lo; *(u64 *)(b + 8) = hi;
}
static void D(u8 *b)
{
  u64 a = *(u64 *)b, c = *(u64 *)(b + 8);
  u64 lo = __CPROVER_uninterpreted_Dlo(a, c), hi = __CPROVER_uninterpreted_Dhi(a, c);
  __CPROVER_assume(__CPROVER_uninterpreted_Elo(lo, hi) == a && __CPROVER_uninterpreted_Ehi(lo, hi) == c);   /* E(D(y)) = y */
  *(u64 *)b = lo; *(u64 *)(b + 8) = hi;
}
#else
/* native replay: E/D instantiated with the FIPS-197 reference under the harness key (real code runs its real AES; C09) */
static void E(u8 *b) { u8 o[16]; ref_aes128_encrypt(IN.key, b, o); memcpy(b, o, 16); }
static void D(u8 *b) { u8 o[16]; ref_aes128_decrypt(IN.key, b, o); memcpy(b, o, 16); }
#endif
/* targets of ir2c --replace for encryaes::runaes_128bit / decryaes::runaes_128bit */
void uf_aes_enc(u8 *self, u8 *block) { (void)self; E(block); }
void uf_aes_dec(u8 *self, u8 *block) { (void)self; D(block); }

static void xor16(u8 *a, const u8 *b) { for (int i = 0; i < 16; i++) a[i] ^= b[i]; }
/* SP 800-38A one block; reg is the chaining value / counter / feedback register */
static void ref_mode_step(int type, int enc, u8 *reg, u8 *blk)
{
  u8 t[16], in[16];
  memcpy(in, blk, 16);
  switch (type) {
  case 0: if (enc) E(blk); else D(blk); break;                                            /* 6.1 ECB */
  case 1: if (enc) { xor16(blk, reg); E(blk); memcpy(reg, blk, 16); }                      /* 6.2 CBC */
          else { D(blk); xor16(blk, reg); memcpy(reg, in, 16); } break;
  case 2: memcpy(t, reg, 16); E(t); xor16(blk, t);                                         /* 6.5 CTR, standard incrementing function on all 128 bits */
          for (int i = 15; i >= 0; i--) { reg[i] = (u8)(reg[i] + 1); if (reg[i] != 0) break; } break;
  case 3: memcpy(t, reg, 16); E(t); xor16(blk, t); memcpy(reg, enc ? blk : in, 16); break;  /* 6.3 CFB-128 */
  case 4: E(reg); xor16(blk, reg); break;                                                  /* 6.4 OFB */
  }
}

#if defined(H_STEP)
/* TYPE in 0..4, ENC in {0,1}: factory product, constructor copies the first 16 IV bytes, NSTEPS steps equal the reference */
#ifndef NSTEPS
#define NSTEPS 1
#endif
void harness(void)
{
  LOAD_INPUTS();
  u8 key[16], iv[20], reg[16], got[16], blk[16] __attribute__((aligned(8))), rblk[16] __attribute__((aligned(8)));
  memcpy(key, IN.key, 16); memcpy(iv, IN.iv, 20);
  u8 *m = vf_mode_new(key, iv, ENC, TYPE);
  CHECK(m != 0, "factory returns an object for (direction, type)");
  vf_mode_getiv(m, got);
  for (int i = 0; i < 16; i++) CHECK(got[i] == IN.iv[i], "constructor loads the first 16 bytes of the IV into the register");
  memcpy(reg, IN.iv, 16);
  u32 iv_off, w_off, size;
  vf_mode_layout((u8 *)&iv_off, (u8 *)&w_off, (u8 *)&size);
  for (int s = 0; s < NSTEPS; s++) {
    memcpy(blk, s ? IN.x2 : IN.x, 16); memcpy(rblk, blk, 16);
    u8 snap[512];
    CHECK(size <= 512, "object size");
    for (u32 i = 0; i < size && i < 512; i++) snap[i] = m[i];
    vf_mode_run(m, blk);
    ref_mode_step(TYPE, ENC, reg, rblk);
    for (int i = 0; i < 16; i++) CHECK(blk[i] == rblk[i], "output block equals SP 800-38A mode step");
    vf_mode_getiv(m, got);
    for (int i = 0; i < 16; i++) CHECK(got[i] == reg[i], "register after the step equals SP 800-38A (feedback / counter+1 with carries)");
    for (u32 i = 0; i < size && i < 512; i++)
      if (!(i >= iv_off && i < iv_off + 16) && !(i >= w_off && i < w_off + 16))
        CHECK(m[i] == snap[i], "frame: a step changes only the register and the AES scratch state (no hidden per-stream state)");
  }
  WITNESS_POINT();
}
#elif defined(H_INVERSE)
/* decryptor restores what the encryptor produced, registers stay in lockstep: one step from arbitrary equal registers */
void harness(void)
{
  LOAD_INPUTS();
  u8 key[16], iv[20], r1[16], r2[16], blk[16] __attribute__((aligned(8)));
  memcpy(key, IN.key, 16); memcpy(iv, IN.iv, 20);
  u8 *e = vf_mode_new(key, iv, 1, TYPE), *d = vf_mode_new(key, iv, 0, TYPE);
  CHECK(e != 0 && d != 0, "factory returns objects");
  memcpy(blk, IN.x, 16);
  vf_mode_run(e, blk);
  vf_mode_run(d, blk);
  for (int i = 0; i < 16; i++) CHECK(blk[i] == IN.x[i], "decryptor step inverts encryptor step");
  vf_mode_getiv(e, r1); vf_mode_getiv(d, r2);
  for (int i = 0; i < 16; i++) CHECK(r1[i] == r2[i], "registers of encryptor and decryptor stay equal (lockstep invariant)");
  WITNESS_POINT();
}
#elif defined(H_FACTORY_RANGE)
/* out-of-range type: factory returns NULL (callers must check) - recorded behaviour, used by C11 */
struct in2_t { u8 t; } ;
void harness(void)
{
  LOAD_INPUTS();
  u8 key[16], iv[20];
  memcpy(key, IN.key, 16); memcpy(iv, IN.iv, 20);
  u8 t = IN.x[0];
  ASSUME(t > 4);
  u8 *m = vf_mode_new(key, iv, IN.x[1] & 1, t);
  CHECK(m == 0, "factory returns NULL for unknown type");
  WITNESS_POINT();
}
#else
#error "select a harness"
#endif
HARNESS_MAIN
