/* Protocol model of the chunk-buffer hand-over (multi_buffergroup.cpp / multicry.cpp), at the granularity
   "critical sections are atomic, every unsynchronised shared read is a step of its own".
   It is NOT trusted on its own: h_refine.c proves, on the real code's IR and for arbitrary states / arbitrary primitive outcomes, that
     L1  each real leaf (set_update, set_ready, wait_ready, wait_update, cmpstate, haslive, get_entry) has exactly the effect of the
         m_* leaf below, touches state/live_num only while holding the buffer's mutex, and blocks only in condition_variable::wait;
     L2  each real control skeleton (require_buffer_entry, multiruncrypt_file, buffer_update, turn_iter, run_buffer) performs exactly
         the sequence of leaf calls and decisions of the m_* skeleton below.
   h_model.c then explores every schedule of the model. */
#ifndef MODEL_PROTO_H
#define MODEL_PROTO_H
#include <stdint.h>
enum { M_EMPTY = 0, M_UPDATING = 1, M_READY = 2, M_INV = 3 };
enum { M_FULL = 0, M_FINAL = 1, M_NODATA = 2 };

/* ---- leaves (effects of the real critical sections / reads) */
static inline int m_set_update(uint32_t *state) { if (*state == M_READY) { *state = M_UPDATING; return 1; } return 0; }     /* returns 1 iff cv_update notified */
static inline void m_set_ready(uint32_t *state, uint8_t *live, int load) { if (load) *state = M_READY; else { *state = M_INV; *live = (uint8_t)(*live - 1); } }
static inline int m_wait_ready_ok(uint32_t state) { return state == M_READY || state == M_INV; }
static inline int m_wait_update_ok(uint32_t state) { return state == M_UPDATING || state == M_EMPTY; }

/* ---- skeletons, written against an abstract set of primitives so that the same text serves the refinement check (primitives = recorders
   fed by symbolic outcomes) and documents what the scheduler model in h_model.c unrolls into steps */
struct m_prims {
  int (*cmpstate)(unsigned idx, unsigned st);
  int (*get_entry)(unsigned idx);                /* 1: a block was handed out, 0: NULL */
  void (*set_update)(unsigned idx);
  void (*wait_ready)(unsigned idx);
  void (*wait_update)(unsigned idx);
  void (*set_ready)(unsigned idx, int load);
  int (*haslive)(void);
  int (*load)(unsigned idx);                     /* M_FULL / M_FINAL / M_NODATA */
  void (*export_)(unsigned idx);
  void (*printload)(void);
  void (*runcry)(unsigned idx);
};
/* require_buffer_entry(id): 1 iff a block is returned */
static inline int m_require(const struct m_prims *p, unsigned id)
{
  int got = 0;
  if (p->cmpstate(id, M_READY)) {
    got = p->get_entry(id);
    if (!got) p->set_update(id);
  }
  if (!got) {
    p->wait_ready(id);
    if (p->cmpstate(id, M_READY)) got = p->get_entry(id);
  }
  return got;
}
/* multiruncrypt_file(id): bounded by fuel for the refinement check */
static inline void m_worker(const struct m_prims *p, unsigned id, int (*require)(unsigned), unsigned fuel)
{
  while (fuel-- && require(id)) p->runcry(id);
}
/* buffer_update() on buffer `turn`; returns new `over` */
static inline int m_buffer_update(const struct m_prims *p, unsigned turn, int over)
{
  int ls = M_NODATA;
  if (p->cmpstate(turn, M_UPDATING)) { p->export_(turn); p->printload(); }
  if (!over) ls = p->load(turn);
  over = ls != M_FULL;
  p->set_ready(turn, ls != M_NODATA);
  return over;
}
/* turn_iter(): returns 0 when the loop ends, else 1 with *turn advanced */
static inline int m_turn_iter(const struct m_prims *p, unsigned *turn, unsigned size, unsigned fuel)
{
  if (!p->haslive()) return 0;
  do { *turn = (*turn + 1) % size; } while (fuel-- && p->cmpstate(*turn, M_INV));
  return 1;
}
#endif
