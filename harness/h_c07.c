/* C07 - SHA-1, MD5 and SHA-256 digests are the standard ones for every message.
   ALG: 0 SHA-1, 1 MD5, 2 SHA-256 (the repository's hash-mode numbers).
   K: compression function == reference, decomposed into LOCAL obligations (schedule recurrence, one round from an arbitrary state,
      final addition) cut at the guarded per-round observation hook.   P: padding/length from an arbitrary (state, block count).
   S: getStringHash split.  F: file buffer / getFileHash.  R: output byte order.  I: initial values / factory. */
#include "vharness.h"
#include "ref_hash.h"

u8 *vf_hash_new(u8 type);
u32 vf_hash_gettype(u8 type);
u32 vf_hash_hlen(u8 *h); u32 vf_hash_blen(u8 *h);
void vf_hash_reset(u8 *h);
void vf_hash_compress(u8 *h, u8 *block);
void vf_hash_final(u8 *h, u8 *tail, u32 n);
void vf_hash_getres(u8 *h, u8 *out);
void vf_hash_string(u8 *h, u8 *s, u32 len, u8 *out);
void vf_hash_file(u8 *h, u8 *buf, u8 *out);
u64 vf_hash_get_total(u8 *h); void vf_hash_set_total(u8 *h, u64 v); u32 vf_hash_total_bits(void);
void vf_hash_get_h(u8 *h, u8 type, u8 *out); void vf_hash_set_h(u8 *h, u8 type, u8 *in);
void vf_sha1_sched(u8 *h, u8 *block, u8 *w80); void vf_sha256_sched(u8 *h, u8 *block, u8 *w64);
void vf_hash_set_w(u8 *h, u8 type, u32 idx, u32 val);
u8 *vf_stubbuf_new(void);

#ifndef ALG
#define ALG 0
#endif
#define NW (ALG == 0 ? 5 : ALG == 1 ? 4 : 8)
#define NROUNDS (ALG == 0 ? 80 : 64)
#ifdef __CPROVER__
#define HOOK X_wencry_verif_round
#define STUBREAD X_vf_stub_read
#else
#define HOOK wencry_verif_round
#define STUBREAD vf_stub_read
#endif
#ifndef DELTA
#define DELTA 512
#endif

static u8 *OBJ;

#if defined(H_ROUND) || defined(H_FINALADD)
/* ---- K: one round (J) from an arbitrary working state, or the final addition (H_FINALADD) */
struct in_t { u32 h[8]; u8 block[64]; u32 S[8]; u32 W; u64 total; } IN;
static u32 hook_calls;
static u32 V[4];                 /* MD5: model of the four rotating variables a,b,c,d */
#ifdef H_FINALADD
#define J NROUNDS
#endif
void HOOK(u32 alg, u32 rnd, u8 *st)
{
  u32 *s = (u32 *)st;
#if ALG == 1
  u32 i = hook_calls++;                     /* the MD5 step macros pass a pointer to the word they just updated */
  u32 upd = (4 - i % 4) % 4;
  if (i < J && i + 4 >= J) { *s = IN.S[i + 4 - J]; V[upd] = *s; }    /* make the word arbitrary: after four steps the whole state is */
  else if (i < J) V[upd] = *s;
  if (i == J) {
    u32 x = ref_le32(IN.block + 4 * ref_md5_k(J));
    u32 e = ref_md5_step(J, V[(64 - J) % 4], V[(65 - J) % 4], V[(66 - J) % 4], V[(67 - J) % 4], x);
    CHECK(*s == e, "MD5 step equals RFC 1321");
    WITNESS_POINT();
#ifdef __CPROVER__
    __CPROVER_assume(0);                   /* cut: later steps are the subject of other queries */
#endif
  }
#else
  u32 i = rnd;
  hook_calls++;
  if (i + 1 == J) { for (int k = 0; k < NW; k++) s[k] = IN.S[k]; if (J < NROUNDS) vf_hash_set_w(OBJ, ALG, J, IN.W); }
  if (i == J) {
    u32 e[8], w;
    if (J == 0) { for (int k = 0; k < NW; k++) e[k] = IN.h[k]; w = ref_be32(IN.block); }
    else { for (int k = 0; k < NW; k++) e[k] = IN.S[k]; w = IN.W; }
#if ALG == 0
    ref_sha1_round(J, e, w);
#else
    ref_sha256_round(J, e, w);
#endif
    for (int k = 0; k < NW; k++) CHECK(s[k] == e[k], "round equals FIPS 180-4");
    WITNESS_POINT();
#ifdef __CPROVER__
    __CPROVER_assume(0);
#endif
  }
#endif
}
void harness(void)
{
  LOAD_INPUTS();
  u32 hin[8], hout[8];
  u8 blk[64] __attribute__((aligned(8)));
  OBJ = vf_hash_new(ALG);
  for (int k = 0; k < 8; k++) hin[k] = IN.h[k];
  vf_hash_set_h(OBJ, ALG, (u8 *)hin);
  for (int k = 0; k < 4; k++) V[k] = IN.h[k];
  vf_hash_set_total(OBJ, IN.total);
  u64 before = vf_hash_get_total(OBJ);
  memcpy(blk, IN.block, 64);
  hook_calls = 0;
  vf_hash_compress(OBJ, blk);
#ifdef H_FINALADD
  CHECK(hook_calls == NROUNDS, "the compression function runs exactly 80/64 rounds");
  vf_hash_get_h(OBJ, ALG, (u8 *)hout);
  for (int k = 0; k < NW; k++) CHECK(hout[k] == IN.h[k] + (ALG == 1 ? V[k] : IN.S[k]), "chaining value += working state (FIPS 180-4 step 4 / RFC 1321 step 4)");
  u64 after = vf_hash_get_total(OBJ);
  u32 bits = vf_hash_total_bits();
  u64 mask = bits >= 64 ? ~(u64)0 : (((u64)1 << bits) - 1);
  CHECK(((after - before) & mask) == DELTA, "length counter advances by DELTA bits per compressed block");
  WITNESS_POINT();
#endif
}
#elif defined(H_SCHED)
/* ---- K: message schedule, as a local recurrence on the real output (optionally one index per query: -DTSEL=t) */
#ifdef TSEL
#define TSEL_OK(t) ((t) == TSEL)
#else
#define TSEL_OK(t) 1
#endif
struct in_t { u8 block[64]; } IN;
void harness(void)
{
  LOAD_INPUTS();
  u32 w[80];
  u8 blk[64] __attribute__((aligned(8)));
  memcpy(blk, IN.block, 64);
  OBJ = vf_hash_new(ALG);
#if ALG == 0
  vf_sha1_sched(OBJ, blk, (u8 *)w);
  for (int t = 0; t < 16; t++) CHECK(w[t] == ref_be32(IN.block + 4 * t), "W[t] = big-endian message word (t < 16)");
  for (int t = 16; t < 80; t++) if (TSEL_OK(t)) CHECK(w[t] == ref_rotl(w[t - 3] ^ w[t - 8] ^ w[t - 14] ^ w[t - 16], 1), "SHA-1 W[t] recurrence");
#else
  vf_sha256_sched(OBJ, blk, (u8 *)w);
  for (int t = 0; t < 16; t++) CHECK(w[t] == ref_be32(IN.block + 4 * t), "W[t] = big-endian message word (t < 16)");
  for (int t = 16; t < 64; t++) if (TSEL_OK(t)) CHECK(w[t] == ref_sha256_s1(w[t - 2]) + w[t - 7] + ref_sha256_s0(w[t - 15]) + w[t - 16], "SHA-256 W[t] recurrence");
#endif
  WITNESS_POINT();
}
void HOOK(u32 alg, u32 rnd, u8 *st) {}
#elif defined(H_COUNTER)
/* ---- P0: the running bit-length counter can represent 512*n for every block count n < 2^52 (messages up to 2^58 bytes) */
struct in_t { u64 n; } IN;
void harness(void)
{
  LOAD_INPUTS();
  ASSUME(IN.n < ((u64)1 << 52));
  OBJ = vf_hash_new(ALG);
  vf_hash_set_total(OBJ, 512 * IN.n);
  CHECK(vf_hash_get_total(OBJ) == 512 * IN.n, "bit-length counter holds the length of every message (no wrap at 2^32 bits = 512 MiB)");
  WITNESS_POINT();
}
void HOOK(u32 alg, u32 rnd, u8 *st) {}
#elif defined(H_PAD) || defined(H_STRING) || defined(H_FILELOOP)
/* ---- P / S / F2: the compression function is replaced by a recorder (ir2c --replace); what is checked is the byte stream hashed */
#ifndef MAXBLK
#define MAXBLK 8
#endif
static u8 RECF[MAXBLK * 64];     /* flat: CBMC's field-sensitive expansion of small 2-D arrays with a symbolic index does not terminate in reasonable time */
#define REC(b, i) RECF[(b) * 64 + (i)]
static u32 nrec;
#ifdef __CPROVER__
void rec_compress(u8 *self, u8 *block)
{
  CHECK(nrec < MAXBLK, "more blocks compressed than the message holds");
  if (nrec < MAXBLK) for (int i = 0; i < 64; i++) REC(nrec, i) = block[i];
  nrec++;
  vf_hash_set_total(self, vf_hash_get_total(self) + DELTA);      /* side effect of the real compression function (obligation K-finaladd) */
}
#endif
#if defined(H_PAD)
/* final block(s) from an ARBITRARY chaining state after n full blocks: tail of r bytes */
struct in_t { u32 h[8]; u64 n; u32 r; u8 tail[64]; } IN;
void harness(void)
{
  LOAD_INPUTS();
  u32 bits = vf_hash_total_bits();
  ASSUME(IN.r < 64);
#ifdef RFIX
  ASSUME(IN.r == RFIX);
#endif
  ASSUME(IN.n < ((u64)1 << 52) && (bits >= 64 || IN.n < ((u64)1 << (bits - 10))));   /* representable counter: H_COUNTER is the obligation for the rest */
  OBJ = vf_hash_new(ALG);
  u32 hin[8];
  for (int k = 0; k < 8; k++) hin[k] = IN.h[k];
  vf_hash_set_h(OBJ, ALG, (u8 *)hin);
  vf_hash_set_total(OBJ, 512 * IN.n);
  u8 *tail = env_alloc(IN.r ? IN.r : 1);
  for (u32 i = 0; i < IN.r; i++) tail[i] = IN.tail[i];
  u8 pad[128];
  unsigned np = ref_hash_pad(ALG, IN.tail, 64 * IN.n + IN.r, pad);
#ifdef __CPROVER__
  nrec = 0;
  vf_hash_final(OBJ, tail, IN.r);
  CHECK(nrec * 64 == np, "number of padding blocks (one if tail < 56 bytes, else two)");
  for (u32 b = 0; b < 2; b++) if (b < nrec && b * 64 < np) for (int i = 0; i < 64; i++)
    CHECK(REC(b, i) == pad[64 * b + i], "padded block: tail, 0x80, zeros, 64-bit message bit length (FIPS 180-4 5.1.1 / RFC 1321 3.1-3.2)");
#else
  /* native replay: no recorder - compare the observable consequence (the digest from this state) with the reference */
  u32 href[8]; u8 o1[32], o2[32];
  for (int k = 0; k < 8; k++) href[k] = IN.h[k];
  for (unsigned j = 0; j < np; j += 64) ref_hash_compress(ALG, href, pad + j);
  ref_hash_output(ALG, href, o2);
  vf_hash_final(OBJ, tail, IN.r);
  vf_hash_getres(OBJ, o1);
  CHECK(memcmp(o1, o2, ref_hash_len(ALG)) == 0, "digest from (state, block count, tail) equals reference padding + compression");
#endif
  WITNESS_POINT();
}
#elif defined(H_STRING)
/* getStringHash(s, LEN): the blocks handed to the compression function are exactly the padded message */
struct in_t { u8 s[LEN + 1]; } IN;
void harness(void)
{
  LOAD_INPUTS();
  OBJ = vf_hash_new(ALG);
  u8 *s = env_alloc(LEN ? LEN : 1);
  for (u32 i = 0; i < LEN; i++) s[i] = IN.s[i];
  u8 out[32], pad[128];
#ifdef __CPROVER__
  nrec = 0;
  vf_hash_string(OBJ, s, LEN, out);
  unsigned np = ref_hash_pad(ALG, IN.s + (LEN / 64) * 64, LEN, pad);
  CHECK(nrec == LEN / 64 + np / 64, "number of blocks hashed");
  for (u32 b = 0; b < LEN / 64; b++) for (int i = 0; i < 64; i++) CHECK(REC(b, i) == IN.s[64 * b + i], "full message block hashed in order");
  for (u32 b = 0; b < np / 64; b++) if (LEN / 64 + b < MAXBLK) for (int i = 0; i < 64; i++) CHECK(REC(LEN / 64 + b, i) == pad[64 * b + i], "padded tail block");
  u32 h0[8]; u8 o0[32];
  ref_hash_init(ALG, h0); ref_hash_output(ALG, h0, o0);
  for (int i = 0; i < ref_hash_len(ALG); i++) CHECK(out[i] == o0[i], "hashing starts from the standard initial value and the result is the chaining value (compression stubbed)");
#else
  u8 o2[32];
  vf_hash_string(OBJ, s, LEN, out);
  ref_hash(ALG, IN.s, LEN, o2);
  CHECK(memcmp(out, o2, ref_hash_len(ALG)) == 0, "digest equals reference");
#endif
  WITNESS_POINT();
}
#else
/* getFileHash over a buffer that delivers NFULL 64-byte units and then a tail of TAILN bytes (harness-served buffer64) */
struct in_t { u8 units[NFULL + 1][64]; } IN;
static u32 served;
u32 STUBREAD(u8 *block)
{
  u32 k = served++;
  if (k < NFULL) { memcpy(block, IN.units[k], 64); return 64; }
  CHECK(k == NFULL, "the buffer is not read again after it returned a short unit");
  if (TAILN) memcpy(block, IN.units[NFULL], TAILN);
  return TAILN;
}
void harness(void)
{
  LOAD_INPUTS();
  OBJ = vf_hash_new(ALG);
  u8 *buf = vf_stubbuf_new();
  u8 out[32], pad[128];
  served = 0;
#ifdef __CPROVER__
  nrec = 0;
  vf_hash_file(OBJ, buf, out);
  unsigned np = ref_hash_pad(ALG, IN.units[NFULL], 64 * NFULL + TAILN, pad);
  CHECK(served == NFULL + 1, "buffer read until the first short unit");
  CHECK(nrec == NFULL + np / 64, "number of blocks hashed");
  for (u32 b = 0; b < NFULL; b++) for (int i = 0; i < 64; i++) CHECK(REC(b, i) == IN.units[b][i], "full unit hashed in order");
  for (u32 b = 0; b < np / 64; b++) if (NFULL + b < MAXBLK) for (int i = 0; i < 64; i++) CHECK(REC(NFULL + b, i) == pad[64 * b + i], "padded tail block");
#else
  u8 o2[32]; static u8 msg[64 * (NFULL + 1)];
  for (u32 b = 0; b <= NFULL; b++) memcpy(msg + 64 * b, IN.units[b], 64);
  vf_hash_file(OBJ, buf, out);
  ref_hash(ALG, msg, 64 * NFULL + TAILN, o2);
  CHECK(memcmp(out, o2, ref_hash_len(ALG)) == 0, "digest equals reference");
#endif
  WITNESS_POINT();
}
#endif
void HOOK(u32 alg, u32 rnd, u8 *st) {}
#elif defined(H_FILEBUF)
/* ---- F1: filebuffer64 delivers (prefix block,) then the file in 64-byte units, then ONE short unit (possibly empty), across refills.
   FL: file length, PRE: with prefix block.  The refill size is the unit's HBUF_SZ override. */
#include "env_file.h"
u8 *vf_fb64_new(u8 *fp, u8 *block); u32 vf_fb64_read(u8 *b, u8 *block); u32 vf_fb64_unit_count(void);
struct in_t { u8 file[FL + 1]; u8 pre[64]; } IN;
void harness(void)
{
  LOAD_INPUTS();
  u8 *f = envf_open_in(IN.file, FL);
  u8 pre[64];
  memcpy(pre, IN.pre, 64);
  u8 *fb = vf_fb64_new(f, PRE ? (u8 *)pre : (u8 *)0);
  u8 blk[64];
#if PRE
  CHECK(vf_fb64_read(fb, blk) == 64, "prefix block is delivered first, as a full unit");
  for (int i = 0; i < 64; i++) CHECK(blk[i] == IN.pre[i], "prefix block contents");
#endif
  for (u32 k = 0; k < FL / 64; k++) {
    CHECK(vf_fb64_read(fb, blk) == 64, "full 64-byte unit");
    for (int i = 0; i < 64; i++) CHECK(blk[i] == IN.file[64 * k + i], "unit contents in file order (also across a refill)");
  }
  u32 n = vf_fb64_read(fb, blk);
  CHECK(n == FL % 64, "the remaining bytes are handed out once, as a short unit");
  for (u32 i = 0; i < FL % 64; i++) CHECK(blk[i] == IN.file[64 * (FL / 64) + i], "tail contents");
  CHECK(envf_nwrites(f) == 0, "file not written");
  WITNESS_POINT();
}
void HOOK(u32 alg, u32 rnd, u8 *st) {}
#elif defined(H_RESULT)
/* ---- R / I: output byte order, initial values, lengths, factory mapping */
struct in_t { u32 h[8]; u8 t; u8 block[64]; } IN;
void harness(void)
{
  LOAD_INPUTS();
  OBJ = vf_hash_new(ALG);
  CHECK(OBJ != 0, "factory returns a hasher for modes 0..2");
  u32 h0[8], hr[8], hin[8];
  u8 o1[32], o2[32];
  vf_hash_get_h(OBJ, ALG, (u8 *)h0); ref_hash_init(ALG, hr);
  for (int k = 0; k < NW; k++) CHECK(h0[k] == hr[k], "initial chaining value is the standard one");
  CHECK(vf_hash_get_total(OBJ) == 0, "length counter starts at 0");
  CHECK(vf_hash_hlen(OBJ) == (u32)ref_hash_len(ALG) && vf_hash_blen(OBJ) == 64, "digest / block length");
  for (int k = 0; k < 8; k++) hin[k] = IN.h[k];
  vf_hash_set_h(OBJ, ALG, (u8 *)hin);
  vf_hash_set_total(OBJ, 4096);
  vf_hash_getres(OBJ, o1); ref_hash_output(ALG, IN.h, o2);
  for (int i = 0; i < ref_hash_len(ALG); i++) CHECK(o1[i] == o2[i], "digest byte order (big-endian words for SHA, little-endian for MD5)");
  vf_hash_reset(OBJ);
  vf_hash_get_h(OBJ, ALG, (u8 *)h0);
  for (int k = 0; k < NW; k++) CHECK(h0[k] == hr[k], "reset() restores the initial chaining value");
  CHECK(vf_hash_get_total(OBJ) == 0, "reset() clears the length counter");
  u32 ty = vf_hash_gettype(IN.t);
  CHECK(ty == (IN.t <= 2 ? (u32)IN.t : 0xffffffffu), "hash-mode byte maps to SHA1/MD5/SHA256, anything else to Unknown");
  WITNESS_POINT();
}
void HOOK(u32 alg, u32 rnd, u8 *st) {}
#else
#error "select a harness"
#endif
HARNESS_MAIN
