/* C09 - single-block AES-128 equals FIPS-197 for every key/block; decryption inverts it.
   Compositional: T1 tables, T2 round functions, T3 key schedule, T4 composition with uninterpreted rounds. */
#include "vharness.h"
#include "ref_aes.h"

void vf_aes_enc_block(u8 *key, u8 *block);
void vf_aes_dec_block(u8 *key, u8 *block);
void vf_enc_commonround(u8 *w, u8 *k);
void vf_enc_specround(u8 *w, u8 *k1, u8 *k2);
void vf_dec_commonround(u8 *w, u8 *k);
void vf_dec_specround(u8 *w, u8 *k1, u8 *k2);
void vf_enc_subbytes(u8 *w); void vf_enc_rowshift(u8 *w); void vf_enc_columnmix(u8 *w);
void vf_dec_subbytes(u8 *w); void vf_dec_rowshift(u8 *w); void vf_dec_columnmix(u8 *w);
u8 vf_sbox(u8 x); u8 vf_rsbox(u8 x); u8 vf_log(u8 x); u8 vf_alog(u32 x); u32 vf_alog_size(void); u8 vf_rc(u32 x);
u8 vf_gmul(u8 u, u8 v);
void vf_key_expand(u8 *key, u8 *out176);
void vf_genkey_step(u8 *prev, u32 round, u8 *out);
void vf_aes_rk_enc(u8 *rk176, u8 *block);
void vf_aes_rk_dec(u8 *rk176, u8 *block);

/* repository state_t memory layout: byte 4r+c holds FIPS s[r][c] = linear byte r+4c */
static void to_repo(const u8 *lin, u8 *st) { for (int r = 0; r < 4; r++) for (int c = 0; c < 4; c++) st[4 * r + c] = lin[r + 4 * c]; }
static void to_lin(const u8 *st, u8 *lin) { for (int r = 0; r < 4; r++) for (int c = 0; c < 4; c++) lin[r + 4 * c] = st[4 * r + c]; }
#define ALIGNED __attribute__((aligned(8)))
#ifdef LANE
#define LANE_SEL(i) ((i) == LANE)      /* one output byte per query (slicing: the SAT instance then only contains that byte's cone) */
#else
#define LANE_SEL(i) 1
#endif

#if defined(H_TABLES)
struct in_t { u8 x; u8 r; } IN;
void harness(void)
{
  LOAD_INPUTS();
  u8 x = IN.x;
  CHECK(ref_sbox[x] == ref_sbox_alg(x), "reference S-box table equals FIPS-197 5.1.1 (inverse + affine map)");
  CHECK(vf_sbox(x) == ref_sbox_alg(x), "s_box[x] equals FIPS-197 5.1.1 for every x");
  CHECK(vf_rsbox(vf_sbox(x)) == x, "rs_box inverts s_box");
  CHECK(vf_sbox(vf_rsbox(x)) == x, "s_box inverts rs_box");
  if (x != 0) CHECK(vf_alog(vf_log(x)) == x, "Alogtable[Logtable[x]] == x for x != 0");
  ASSUME(IN.r <= 10);
  CHECK(vf_rc(IN.r) == ref_rcon[IN.r], "RC[r] equals FIPS-197 Rcon");
  WITNESS_POINT();
}
#elif defined(H_GMUL)
/* Gmul(u, v) = g^u * v in GF(2^8) for the exponents the round functions use (log of the MixColumns coefficients);
   table index u + Logtable[v] stays inside Alogtable (CBMC bounds check) */
struct in_t { u8 v; u8 which; } IN;
void harness(void)
{
  LOAD_INPUTS();
  static const u8 expo[7] = {0, 25, 1, 223, 104, 238, 199};
  static const u8 coef[7] = {1, 2, 3, 14, 11, 13, 9};
  ASSUME(IN.which < 7);
  CHECK(vf_gmul(expo[IN.which], IN.v) == ref_gmul(coef[IN.which], IN.v), "Gmul(log c, v) == c*v in GF(2^8)");
  WITNESS_POINT();
}
#elif defined(H_ENC_ROUND)
struct in_t { u8 w[16]; u8 k[16]; u8 k2[16]; } IN;
void harness(void)
{
  LOAD_INPUTS();
  u8 st[16] ALIGNED, kk[16] ALIGNED, kk2[16] ALIGNED, lin[16], out[16];
  to_repo(IN.w, st); to_repo(IN.k, kk); to_repo(IN.k2, kk2);
  for (int i = 0; i < 16; i++) lin[i] = IN.w[i];
#ifdef SPEC
  vf_enc_specround(st, kk, kk2);
  ref_add_round_key(lin, IN.k); ref_sub_bytes(lin); ref_shift_rows(lin); ref_add_round_key(lin, IN.k2);
#else
  vf_enc_commonround(st, kk);
  ref_add_round_key(lin, IN.k); ref_sub_bytes(lin); ref_shift_rows(lin); ref_mix_columns(lin);
#endif
  to_lin(st, out);
  for (int i = 0; i < 16; i++) if (LANE_SEL(i)) CHECK(out[i] == lin[i], "encryption round equals FIPS-197 AddRoundKey/SubBytes/ShiftRows/MixColumns");
  WITNESS_POINT();
}
#elif defined(H_DEC_ROUND)
/* decryption round y = f(w,k): checked relationally with forward reference functions only */
struct in_t { u8 w[16]; u8 k[16]; u8 k2[16]; } IN;
void harness(void)
{
  LOAD_INPUTS();
  u8 st[16] ALIGNED, kk[16] ALIGNED, kk2[16] ALIGNED, lin[16], y[16];
  to_repo(IN.w, st); to_repo(IN.k, kk); to_repo(IN.k2, kk2);
  for (int i = 0; i < 16; i++) lin[i] = IN.w[i];
#ifdef SPEC
  /* specround(w,k1,k2): AddRoundKey(k2); InvShiftRows; InvSubBytes; AddRoundKey(k1)   <=>  SubBytes(y ^ k1) == InvShiftRows(w ^ k2) */
  vf_dec_specround(st, kk, kk2);
  to_lin(st, y);
  ref_add_round_key(lin, IN.k2); ref_inv_shift_rows(lin);
#else
  /* commonround(w,k): InvMixColumns; InvShiftRows; InvSubBytes; AddRoundKey(k)   <=>  SubBytes(y ^ k) == InvShiftRows(InvMixColumns(w)) */
  vf_dec_commonround(st, kk);
  to_lin(st, y);
  ref_inv_mix_columns(lin); ref_inv_shift_rows(lin);
#endif
  ref_add_round_key(y, IN.k); ref_sub_bytes(y);
  for (int i = 0; i < 16; i++) if (LANE_SEL(i)) CHECK(y[i] == lin[i], "decryption round equals FIPS-197 inverse round");
  WITNESS_POINT();
}
#elif defined(H_ROUND_INVERSE)
/* dec_round(enc_round(w,k),k) == w on the real functions */
struct in_t { u8 w[16]; u8 k[16]; u8 k2[16]; } IN;
void harness(void)
{
  LOAD_INPUTS();
  u8 st[16] ALIGNED, kk[16] ALIGNED, kk2[16] ALIGNED;
  for (int i = 0; i < 16; i++) { st[i] = IN.w[i]; kk[i] = IN.k[i]; kk2[i] = IN.k2[i]; }
#ifdef SPEC
  vf_enc_specround(st, kk, kk2); vf_dec_specround(st, kk, kk2);
#else
  vf_enc_commonround(st, kk); vf_dec_commonround(st, kk);
#endif
  for (int i = 0; i < 16; i++) if (LANE_SEL(i)) CHECK(st[i] == IN.w[i], "decryption round inverts encryption round");
  WITNESS_POINT();
}
#elif defined(H_REF_INVMIX)
/* lemma about the reference only (FIPS-197 5.3.3): InvMixColumns inverts MixColumns; with T1 (S-box bijective) and the
   relational form of the decryption-round obligations this gives dec_round(enc_round(w,k),k) == w */
struct in_t { u8 w[16]; } IN;
void harness(void)
{
  LOAD_INPUTS();
  u8 lin[16];
  for (int i = 0; i < 16; i++) lin[i] = IN.w[i];
  ref_mix_columns(lin); ref_inv_mix_columns(lin);
  for (int i = 0; i < 4; i++) CHECK(lin[i] == IN.w[i], "InvMixColumns(MixColumns(col)) == col");
  ref_shift_rows(lin); ref_inv_shift_rows(lin);
  for (int i = 0; i < 16; i++) if (i < 4) CHECK(lin[i] == IN.w[i], "InvShiftRows(ShiftRows(s)) == s"); 
  WITNESS_POINT();
}
#elif defined(H_KEYSTEP)
/* genkey(ROUND) from an arbitrary previous round key equals the FIPS-197 expansion step */
struct in_t { u8 prev[16]; } IN;
void harness(void)
{
  LOAD_INPUTS();
  u8 p[16] ALIGNED, o[16] ALIGNED, out[16], refo[16];
  to_repo(IN.prev, p);
  vf_genkey_step(p, ROUND, o);
  to_lin(o, out);
  ref_key_step(IN.prev, ROUND, refo);
  for (int i = 0; i < 16; i++) CHECK(out[i] == refo[i], "round key equals FIPS-197 key expansion step (RotWord, SubWord, Rcon)");
  WITNESS_POINT();
}
#elif defined(H_KEYEXPAND)
/* the whole schedule produced by the constructor equals FIPS-197 KeyExpansion */
struct in_t { u8 key[16]; } IN;
void harness(void)
{
  LOAD_INPUTS();
  u8 rk[176] ALIGNED, refrk[176], lin[16];
  vf_key_expand(IN.key, rk);
  ref_key_expand(IN.key, refrk);
  for (int r = 0; r <= NROUNDS; r++) { to_lin(rk + 16 * r, lin); for (int i = 0; i < 16; i++) CHECK(lin[i] == refrk[16 * r + i], "key schedule equals FIPS-197 KeyExpansion"); }
  WITNESS_POINT();
}
#elif defined(H_COMPOSE)
/* T4: runaes_128bit with its round functions replaced by uninterpreted functions equals the FIPS skeleton
   (load order, 9 common rounds with keys 0..8, special round with keys 9 and 10, store order).
   The unit is compiled -fno-inline and ir2c redirects the four round functions to uf_* below. */
#ifdef __CPROVER__
u64 __CPROVER_uninterpreted_rlo(u64, u64, u64, u64); u64 __CPROVER_uninterpreted_rhi(u64, u64, u64, u64);
u64 __CPROVER_uninterpreted_slo(u64, u64, u64, u64, u64, u64); u64 __CPROVER_uninterpreted_shi(u64, u64, u64, u64, u64, u64);
static void uf_round(u8 *w, u8 *k)
{
  u64 a = *(u64 *)w, b = *(u64 *)(w + 8), c = *(u64 *)k, d = *(u64 *)(k + 8);
  *(u64 *)w = __CPROVER_uninterpreted_rlo(a, b, c, d); *(u64 *)(w + 8) = __CPROVER_uninterpreted_rhi(a, b, c, d);
}
static void uf_spec(u8 *w, u8 *k1, u8 *k2)
{
  u64 a = *(u64 *)w, b = *(u64 *)(w + 8), c = *(u64 *)k1, d = *(u64 *)(k1 + 8), e = *(u64 *)k2, f = *(u64 *)(k2 + 8);
  *(u64 *)w = __CPROVER_uninterpreted_slo(a, b, c, d, e, f); *(u64 *)(w + 8) = __CPROVER_uninterpreted_shi(a, b, c, d, e, f);
}
#else
/* native replay: the uninterpreted rounds are instantiated with the FIPS reference rounds (the real code runs its real rounds,
   which obligations enc-round/dec-round prove equal to these) */
static void uf_round(u8 *w, u8 *k)
{
  u8 lin[16], kl[16]; to_lin(w, lin); to_lin(k, kl);
#ifdef DEC
  ref_inv_mix_columns(lin); ref_inv_shift_rows(lin); for (int i = 0; i < 16; i++) lin[i] = ref_inv_sbox(lin[i]); ref_add_round_key(lin, kl);
#else
  ref_add_round_key(lin, kl); ref_sub_bytes(lin); ref_shift_rows(lin); ref_mix_columns(lin);
#endif
  to_repo(lin, w);
}
static void uf_spec(u8 *w, u8 *k1, u8 *k2)
{
  u8 lin[16], a[16], b[16]; to_lin(w, lin); to_lin(k1, a); to_lin(k2, b);
#ifdef DEC
  ref_add_round_key(lin, b); ref_inv_shift_rows(lin); for (int i = 0; i < 16; i++) lin[i] = ref_inv_sbox(lin[i]); ref_add_round_key(lin, a);
#else
  ref_add_round_key(lin, a); ref_sub_bytes(lin); ref_shift_rows(lin); ref_add_round_key(lin, b);
#endif
  to_repo(lin, w);
}
#endif
void uf_enc_common(u8 *w, u8 *k) { uf_round(w, k); }
void uf_enc_spec(u8 *w, u8 *k1, u8 *k2) { uf_spec(w, k1, k2); }
void uf_dec_common(u8 *w, u8 *k) { uf_round(w, k); }
void uf_dec_spec(u8 *w, u8 *k1, u8 *k2) { uf_spec(w, k1, k2); }
struct in_t { u8 rk[176]; u8 block[16]; } IN;
void harness(void)
{
  LOAD_INPUTS();
  u8 rk[176] ALIGNED, blk[16] ALIGNED, st[16] ALIGNED, out[16];
  for (int i = 0; i < 176; i++) rk[i] = IN.rk[i];
  for (int i = 0; i < 16; i++) blk[i] = IN.block[i];
  to_repo(IN.block, st);                      /* state_t byte 4r+c = in[r+4c] */
#ifdef DEC
  vf_aes_rk_dec(rk, blk);
  uf_spec(st, rk + 16 * 9, rk + 16 * 10);
  for (int i = 8; i >= 0; i--) uf_round(st, rk + 16 * i);
#else
  vf_aes_rk_enc(rk, blk);
  for (int i = 0; i < 9; i++) uf_round(st, rk + 16 * i);
  uf_spec(st, rk + 16 * 9, rk + 16 * 10);
#endif
  to_lin(st, out);
  for (int i = 0; i < 16; i++) CHECK(blk[i] == out[i], "block function = load, rounds with keys 0..8, special round with keys 9,10, store (FIPS-197 cipher skeleton)");
  WITNESS_POINT();
}
#elif defined(H_KEYSKEL)
/* T3b: genall() = load key as round key 0 (column-major) then genkey(1..10), each from the previous round key */
#ifdef __CPROVER__
u64 __CPROVER_uninterpreted_klo(u64, u64, u32); u64 __CPROVER_uninterpreted_khi(u64, u64, u32);
static void uf_key(u8 *p, u8 *o, u32 round)
{
  u64 a = *(u64 *)p, b = *(u64 *)(p + 8);
  *(u64 *)o = __CPROVER_uninterpreted_klo(a, b, round); *(u64 *)(o + 8) = __CPROVER_uninterpreted_khi(a, b, round);
}
#else
static void uf_key(u8 *p, u8 *o, u32 round) { u8 pl[16], ol[16]; to_lin(p, pl); ref_key_step(pl, round, ol); to_repo(ol, o); }
#endif
void uf_genkey(u8 *self, u32 round)
{
  CHECK(round >= 1 && round <= 10, "genkey called with a round in 1..10");
  uf_key(self + 16 * (round - 1), self + 16 * round, round);      /* state_t key[11] is the first member of keyhandle */
}
struct in_t { u8 key[16]; u8 key0[16]; } IN;
void harness(void)
{
  LOAD_INPUTS();
  u8 rk[176] ALIGNED, sk[176] ALIGNED;
#ifdef HISTORY
  /* process history: another (arbitrary) key was expanded before - the schedule of a key must not depend on it (no stale cache) */
  { u8 rk0[176] ALIGNED; vf_key_expand(IN.key0, rk0); }
#endif
  vf_key_expand(IN.key, rk);
  to_repo(IN.key, sk);
  for (u32 r = 1; r <= 10; r++) uf_key(sk + 16 * (r - 1), sk + 16 * r, r);
  for (int i = 0; i < 176; i++) CHECK(rk[i] == sk[i], "key schedule skeleton: round key 0 = key (column-major), round key r = step(round key r-1, r)");
  WITNESS_POINT();
}
#elif defined(H_KAT)
/* end-to-end on the real block functions with a symbolic block and the FIPS-197 Appendix B key (concrete): sanity + reference tie */
struct in_t { u8 block[16]; u8 key[16]; } IN;
void harness(void)
{
  LOAD_INPUTS();
  u8 b[16] ALIGNED, r[16];
  for (int i = 0; i < 16; i++) b[i] = IN.block[i];
  vf_aes_enc_block(IN.key, b);
  ref_aes128_encrypt(IN.key, IN.block, r);
  for (int i = 0; i < 16; i++) CHECK(b[i] == r[i], "AES-128 encryption equals FIPS-197");
  vf_aes_dec_block(IN.key, b);
  for (int i = 0; i < 16; i++) CHECK(b[i] == IN.block[i], "decryption inverts encryption");
  WITNESS_POINT();
}
#else
#error "select a harness"
#endif
HARNESS_MAIN
