#!/bin/bash
# usage: seed_confirm.sh <worktree> <seed-id>   -- my own confirmation of a sub-agent's change in ITS scratch worktree (never in /repo):
# the tree builds and the stable tests pass with the patch; the demo exits non-zero with the patch and 0 without. Copies the deliverables
# to seeded/<seed-id>/ and writes seeded/<seed-id>/confirm.txt.
set -u
WT=$1; ID=$2; D=/verif/seeded/$ID; mkdir -p $D
cd $WT || exit 2
[ -f _mut/patch.diff ] || { echo "no patch"; exit 2; }
git apply -R --check _mut/patch.diff 2>/dev/null || git apply _mut/patch.diff || { echo "patch does not apply"; exit 2; }
STABLE="TestCBC TestCFB TestCTR TestECB TestOFB Testaes Testbase64 Testsha256 Testspeed Testutest"
rm -rf _build_c; cmake -G Ninja -S . -B _build_c >/dev/null 2>&1 && cmake --build _build_c >/dev/null 2>&1 || { echo "BUILD FAILED" | tee $D/confirm.txt; exit 1; }
ok=1; res=""
for t in $STABLE; do ( cd _build_c && timeout 300 ctest -R "^$t\$" --timeout 300 >/dev/null 2>&1 ); rc=$?; [ $rc -ne 0 ] && { ok=0; res="$res $t:FAIL"; }; done
DEMO=_mut/demo.sh; [ -f $DEMO ] || DEMO=_mut/run_demo.sh
timeout 1500 sh $DEMO > /var/tmp/confirm_with.txt 2>&1; w=$?
git apply -R _mut/patch.diff
timeout 1500 sh $DEMO > /var/tmp/confirm_without.txt 2>&1; wo=$?
git apply _mut/patch.diff
rm -rf _build_c
echo "stable tests with patch: $([ $ok = 1 ] && echo all 10 pass || echo FAILED$res); demo with patch exit=$w; demo without patch exit=$wo" | tee $D/confirm.txt
cp _mut/patch.diff $D/; for f in _mut/demo* _mut/run_demo.sh _mut/NOTES.md; do [ -f "$f" ] && [ ! -x "$f" -o "${f##*.}" = sh ] && cp $f $D/; done
[ $ok = 1 ] && [ $w -ne 0 ] && [ $wo -eq 0 ]
