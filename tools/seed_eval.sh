#!/bin/bash
# usage: seed_eval.sh <seed-id> <worktree> <property> [more properties to run]   -- copies the agent's deliverables to seeded/<seed-id>/, applies the
# patch to /repo, runs the quick checks, restores /repo, writes results into seeded/<seed-id>/results.txt
set -u
ID=$1; WT=$2; shift 2
D=/verif/seeded/$ID; mkdir -p $D
cp $WT/_mut/patch.diff $D/patch.diff
for f in $WT/_mut/demo* $WT/_mut/run_demo.sh $WT/_mut/NOTES.md; do [ -f "$f" ] && cp $f $D/; done
cd /repo && git status --short | grep -v '^??' && { echo "repo dirty"; exit 2; }
git -C /repo apply $D/patch.diff || { echo "patch does not apply"; exit 2; }
: > $D/results.txt
for P in "$@"; do
  ( cd /verif && timeout 3000 ./check $P quick > $D/check_$P.log 2>&1; echo "$P exit=$? $(grep -c '^VIOLATION' $D/check_$P.log) violation line(s): $(grep '^VIOLATION' $D/check_$P.log | head -2 | cut -c1-260)" >> $D/results.txt )
done
git -C /repo checkout -- . ; git -C /repo status --short | grep -v '^??'
cat $D/results.txt
