#!/bin/bash
# usage: seed_rerun.sh <seed-id> <property> [more properties]   -- applies seeded/<seed-id>/patch.diff to /repo, runs the quick checks,
# restores /repo and the evidence files (evidence must come from the unchanged tree), appends to seeded/<seed-id>/results.txt
set -u
ID=$1; shift
D=/verif/seeded/$ID
cd /repo && git status --short | grep -v '^??' && { echo "repo dirty"; exit 2; }
git -C /repo apply $D/patch.diff || { echo "patch does not apply"; exit 2; }
EV=$(mktemp -d /var/tmp/ev_XXXXXX); cp /verif/evidence/*.json $EV/
: > $D/results.txt
for P in "$@"; do
  ( cd /verif && timeout 3000 ./check $P quick > $D/check_$P.log 2>&1; echo "$P exit=$? $(grep -c '^VIOLATION' $D/check_$P.log) violation line(s): $(grep '^VIOLATION' $D/check_$P.log | head -2 | cut -c1-260)" >> $D/results.txt )
done
git -C /repo checkout -- . ; git -C /repo status --short | grep -v '^??'
cp $EV/*.json /verif/evidence/; rm -rf $EV
cat $D/results.txt
