#!/usr/bin/env python3
"""regenerate MANIFEST.json from the table below (keeps it schema-valid)"""
import json, os, subprocess
V = os.path.dirname(os.path.dirname(os.path.abspath(__file__)))
ids = [json.loads(l)['id'] for l in open(os.path.join(V, 'properties.jsonl'))]
TECH = 'bounded symbolic checking of the real code: clang++-14 LLVM IR of the real sources -> C (engine/ir2c.py) -> CBMC 6.11 (SAT/SMT) per obligation; counterexamples replayed on a g++/ASan build'
CLAIMED = {
 'C09': dict(note='compositional: tables, round functions (byte-lane queries), key-schedule step, composition with uninterpreted rounds; all keys x all blocks',
             base='clang front end, ir2c translator (validated each run by differential execution), CBMC, FIPS-197 reference in ref/ref_aes.h (validated against openssl)', ref='6 C09'),
 'C10': dict(note='one inductive step of every factory product from an arbitrary register + frame condition; AES as uninterpreted permutation',
             base='as C09; SP 800-38A reference step in harness/h_c10.c; uninterpreted E/D justified by C09', ref='6 C10'),
 'C16': dict(note='encode/decode vs RFC 4648 for every length up to the bound with symbolic contents; validator soundness and completeness over all candidate strings <= 28 chars',
             base='clang front end, ir2c, CBMC, RFC 4648 reference ref/ref_b64.h, glibc C-locale ctype table dumped into env/env_ctype.c', ref='6 C16'),
}
extra = {}
p = os.path.join(V, 'tools', 'manifest_extra.json')
if os.path.exists(p):
    extra = json.load(open(p))
CLAIMED.update(extra.get('claimed', {}))
NA = extra.get('not_applicable', {})
hooks_commits = extra.get('hook_commits', [])
checks = []
for i in ids:
    if i in CLAIMED:
        c = CLAIMED[i]
        checks.append(dict(property_id=i, quick_cmd='./check %s quick' % i, thorough_cmd='./check %s thorough' % i,
                           evidence_file='evidence/%s.json' % i, replay_cmd_template='./check replay {path}', engine='ir2c+cbmc',
                           level_claimed=dict(category='model_checking', text='Solver verdict (UNSAT of the negated property) over all values of the symbolic inputs within the stated bounds, on C regenerated from the real code\'s LLVM IR on every run: ' + c['note'], design_ref='DESIGN.md section ' + c['ref']),
                           level_note=c['base'], technique=TECH))
m = dict(version=1, setup_cmd='true',
         hooks=dict(guard='WENCRY_VERIF', enable='checks compile /repo sources with -DWENCRY_VERIF plus size overrides -DWENCRY_VERIF_BUF_SZ=<n> -DWENCRY_VERIF_HBUF_SZ=<n> through the shims in /verif/shim',
                    baseline_off_cmd='cd /repo && cmake -G Ninja -B _build >/dev/null && cmake --build _build >/dev/null && ctest --test-dir _build -j8 --timeout 900',
                    source_commits=hooks_commits, add_only=True),
         engines=[dict(name='ir2c+cbmc', path='engine/', serves_properties=sorted(CLAIMED), kind_free_text='LLVM-IR-to-C translator + CBMC bounded model checker + native replay')],
         checks=checks,
         notes='see DESIGN.md; known_findings.txt lists recorded and fixed defects',
         not_applicable=[dict(property_id=i, reason=NA.get(i, 'check under construction in this session (see DESIGN.md section 6); not yet claimed')) for i in ids if i not in CLAIMED])
json.dump(m, open(os.path.join(V, 'MANIFEST.json'), 'w'), indent=1)
print('claimed:', sorted(CLAIMED))
