#!/usr/bin/env python3
"""write seeded/<id>/meta.json (from the table below + results.txt of tools/seed_eval.sh) and refresh the table in DESIGN.md"""
import json, os, re
V = os.path.dirname(os.path.dirname(os.path.abspath(__file__)))
SEEDS = {
 'C10-a': dict(property='C10', change='AesCTR::ctrInc loop bound `i >= 0` -> `i > 0`: the carry never reaches counter byte 0', needs='an IV/counter whose bytes 1..15 are all 0xFF (tests use one IV without carries)'),
 'C16-a': dict(property='C16', change='is_valid_b64 final check `tail == 2` -> `decoded >= 16`: 24-character keys with 0 or 1 `=` accepted again', needs='a 24-symbol candidate key with fewer than two `=`; decodes 17/18 bytes into new u8_t[16]'),
 'C08-a': dict(property='C08', change='hmac::cmphmac rewritten as "constant-time" 8-byte word compare looping length/8 times: bytes 16..19 of the SHA-1 tag never compared', needs='hash mode 0 and a tag differing only in its last 4 bytes'),
 'C11-a': dict(property='C11', change='runcrypt::verify caches the mode bytes in (signed) `const char` locals before the range check: bytes 0x80..0xff pass `> 4` / `> 2`', needs='correct magic, >= 74 bytes, hash-mode byte >= 0x80 -> NULL Hashmaster dereference'),
 'C03-a': dict(property='C03', change='require_buffer_entry "simplified": set_update() called whenever the first check yields no block (not only after the worker drained a READY chunk)', needs='I/O thread\'s set_ready between the worker\'s unsynchronised cmpstate(READY) read and the lock in set_update: fresh chunk flipped READY->UPDATING and written out untransformed (51 of 100000 undelayed runs)'),
 'C04-a': dict(property='C04', change='bufferctrl::state made std::atomic and set_update() does a lock-free compare-and-swap + notify instead of taking the lock', needs='worker hands back between the I/O thread\'s state check under the mutex and its cv_update.wait: lost wake-up, I/O thread sleeps forever'),
 'C14-a': dict(property='C14', change='new iobuffer::exhausted() (now == BUF_SZ); require_buffer_entry hands the buffer back on `result == NULL || exhausted()`', needs='a chunk that fills the buffer exactly and the worker descheduled between hand-back and the end of its last runcry(): worker still transforms a block the I/O thread is flushing/refilling'),
 'C01-a': dict(property='C01', change='text offset 48+20T returned through a new `u8_t text_mark()` helper: truncated mod 256', needs='11..16 worker threads (offset >= 256): decrypt seeks 256 bytes early, verifies, reports success, output 256 bytes too long'),
 'C02-a': dict(property='C02', change='FileHeader::getIV: `const u8_t hlen = ..., slen = strlen(r_buf)`: seed length truncated mod 256', needs='a seed of >= 256 characters: IV_0 = SHA1 of the first (len mod 256) characters; round trip with the same build unaffected'),
 'C05-a': dict(property='C05', change='filebuffer64::read_buffer64 "EOF shortcut" after a refill tests `total == 0` (whole blocks) instead of bytes read', needs='HMAC input = k * refill size + 1..63 bytes: the last bytes never reach the MAC, a modification there is accepted'),
 'C07-a': dict(property='C07', change='filebuffer64 fread/total/tail code factored into fill_buffer(); the refill\'s `now = 0` lost', needs='file-streaming entry point and a stream longer than one refill (32 MiB in production)'),
 'C13-a': dict(property='C13', change='hmac::cmphmac byte loop replaced by `strncmp(hmac_out, hmac_res, length) == 0`: stops at a shared 0x00', needs='a crash state (all-zero tag field) whose true HMAC starts with 0x00 (about 1 in 256 byte-granular crash points); final files unaffected'),
 'C06-a': dict(property='C06', change='hmac::getres builds the key block with strncpy instead of memcpy: the MAC depends only on the key prefix up to its first 0x00', needs='an encryption key containing a 0x00 byte and a wrong key differing only after it (80 of 128 one-bit neighbours accepted)'),
 'C09-a': dict(property='C09', change='keyhandle constructor copies the 16-byte key with strncpy instead of memcpy: bytes after the first 0x00 key byte are zeroed', needs='a key with a 0x00 byte in positions 0..14 (e.g. FIPS-197 C.1 key 00 01 .. 0f); test keys are ASCII'),
 'C12-a': dict(property='C12', change='cipher-mode range check moved out of verify() into execute_decrypt() after the gate', needs='a file whose cipher-mode byte (outside the tag) is 5..255: verify accepts what decrypt rejects'),
 'C15-a': dict(property='C15', change='del_instance keeps the singleton and only frees buflst/ctrl: `turn` is no longer reset between pipelines', needs='a multi-chunk operation leaving turn = k > 0, then an operation with thread count <= k in the same process: out-of-bounds ctrl[turn]'),
 'C03-b': dict(property='C03', change='buffer_update "releases idle workers early" when the final chunk is loaded: set_ready(false) on every buffer behind turn that is not READY, treating UPDATING like EMPTY', needs='more chunks than threads, chunk count not a multiple of T, and a worker that already handed back its previous chunk when the final load completes: chunks dropped'),
 'C04-b': dict(property='C04', change='load_buffer: cursor rewind `now = 0` moved to the tail of the function, after the FINAL returns', needs='more chunks than worker threads (final chunk lands in a re-used buffer): worker exits with the buffer READY, I/O thread waits forever; deterministic for files >= 64 MiB with defaults'),
}
HIST = {'C01-a': 'first run MISSED (pipeline runs only up to T=3; gate obligations with T>=11 timed out) -> added text-offset obligations for T=1..16 (prepare_IV+prepare_AES, no hashing); now caught', 'C02-a': 'seeds were <= 120 bytes -> added seed lengths 256/300 (thorough: 255..520) before the first run; caught', 'C05-a': 'C05 first MISSED (gate lengths did not cross the MAC buffer refill; C08 caught it from the start) -> added file lengths 177/178/239; now caught by C05 itself', 'C07-a': 'first BROKEN (translation validation mismatch: the change reads out of bounds, which the two builds resolve differently) -> TV mismatch no longer aborts when an obligation fails; F1 filebuffer64 obligations added; now caught', 'C08-a': 'first UNCONFIRMED (counterexample tag was arbitrary under the uninterpreted hash) -> candidate tag = true tag xor difference pattern; now caught and replayed', 'C13-a': "first: C13's gate obligations gave only an UNCONFIRMED counterexample (needs a real HMAC starting with 0x00; exit 3) while C08's shared comparison obligation caught it -> C13 got its own crash-tag obligations (tag field = first J bytes of the true tag then zeros, accepted only if the missing bytes are zero; native replay searches 65536 keys); now caught and replayed by C13 itself (exit 1) and by C08", 'C04-a': 'first BROKEN (ir2c had no cmpxchg) -> atomics translated as plain operations with a yield; now caught (L1 refinement + real-code schedule search reproduces the deadlock)', 'C14-a': 'first BROKEN (the real-code schedule search failed while only canonical obligations had failed) -> all counterexamples handled uniformly; now caught by the canonical real-code obligations (monitor) and replayed', 'C09-a': 'first BROKEN (strncpy missing in the environment) -> added; caught by T3-key-skeleton', 'C15-a': 'first MISSED (three-operation obligations timed out on the changed tree) -> added two-pipelines-with-different-T obligations and made the failing first operation of the three-operation obligations a concrete failure class per query (they had explored an accepting path with symbolic junk); now caught by both (globals not initial after the operation; NULL ctrl dereference in the second pipeline)', 'C04-b': 'first UNCONFIRMED (deadlock found by the canonical real-code obligations, but the confirmation search runs on the protocol unit where load_buffer is stubbed) -> deterministic native replay of canonical counterexamples; now caught', 'C06-a': 'first BROKEN (strncpy missing in the environment) -> added; caught'}
rows = []
for sid, m in sorted(SEEDS.items()):
    d = os.path.join(V, 'seeded', sid)
    if not os.path.isdir(d):
        continue
    res = {}
    rp = os.path.join(d, 'results.txt')
    if os.path.exists(rp):
        for ln in open(rp):
            mm = re.match(r'(C\d+) exit=(\d+) (\d+) violation', ln)
            if mm:
                res[mm.group(1)] = dict(exit=int(mm.group(2)), violation_lines=int(mm.group(3)))
    caught = sorted(p for p, r in res.items() if r['exit'] == 1 and r['violation_lines'] > 0)
    meta = dict(id=sid, breaks_property=m['property'], change=m['change'], needs_to_manifest=m['needs'], files=sorted(os.listdir(d)),
                what_was_run=['agent: build + stable tests with the patch, demo fails with / passes without the patch (NOTES.md)',
                              'confirmed again by the author of the checks in the scratch worktree: cmake build + the stable tests pass with the patch applied; demo script (demo.sh / run_demo.sh, seed directory copied to <worktree>/_mut) exits 1 with the patch and 0 after git apply -R',
                              'git -C /repo apply seeded/%s/patch.diff; ./check <P> quick for P in %s; git -C /repo checkout -- .' % (sid, sorted(res))],
                check_results=res, caught_by=caught, history=HIST.get(sid, 'caught by the first run'))
    json.dump(meta, open(os.path.join(d, 'meta.json'), 'w'), indent=1)
    rows.append('| %s | %s | %s | %s | %s' % (sid, m['property'], m['change'].replace('|', '/'), m['needs'].replace('|', '/'), ', '.join('%s (exit %d, %d VIOLATION lines)' % (p, r['exit'], r['violation_lines']) for p, r in sorted(res.items())) or 'not yet run') + ' | ' + HIST.get(sid, 'caught by the first run') + ' |')
tab = '| seed | property | change | needs | result of `./check <P> quick` on the changed tree (last run) | history |\n|---|---|---|---|---|---|\n' + '\n'.join(rows)
p = os.path.join(V, 'DESIGN.md')
s = open(p).read()
if 'SEEDED_TABLE_PLACEHOLDER' in s:
    s = s.replace('SEEDED_TABLE_PLACEHOLDER', '## 9. Seeded-change table\n\n<!-- seeded-table-begin -->\n' + tab + '\n<!-- seeded-table-end -->')
else:
    s = re.sub(r'<!-- seeded-table-begin -->.*<!-- seeded-table-end -->', '<!-- seeded-table-begin -->\n' + tab.replace('\\', '\\\\') + '\n<!-- seeded-table-end -->', s, flags=re.S)
open(p, 'w').write(s)
print(tab)
