#!/usr/bin/env python3
# usage: mk_tasks.py <round-tag> <property ids...>  -- creates a scratch worktree /tmp/mut<tag>_<P> of /repo HEAD per property and writes
# the sub-agent's task (_TASK.md: the property text + the list of changes that already exist, nothing from /verif) into it.
import json, os, subprocess, sys
src = open('/verif/tools/seed_meta.py').read()
ns = {}
exec(src[src.index('SEEDS = {'):src.index('rows = []')], ns)
SEEDS = ns['SEEDS']
props = {json.loads(l)['id']: json.loads(l) for l in open('/verif/properties.jsonl')}
tag = sys.argv[1]
GENERAL = ('Also avoid these kinds of slip, which have been used several times already: replacing memcpy by strncpy or a byte-compare loop by '
           'strncmp/word compare/non-accumulating loop; narrowing a length or counter to u8/u32/char or making a byte signed; storing fgetc() in a char; '
           'moving the set_update() call in require_buffer_entry; moving a range check out of verify(); wait_for/wait_until with an ignored result; '
           'a static cache keyed on part of its input; keeping a pointer instead of copying a block; a hand-written strlen. Prefer a site or a kind of '
           'slip nobody would think of first: an initialisation order, an aliasing between two buffers, a boundary in index arithmetic (<= vs <, +1/-1), '
           'a wrong constant in a table or round, a swapped argument, an early return that skips cleanup, a condition that is right for one mode/hash and wrong for another.')
for pid in sys.argv[2:]:
    p = props[pid]
    wt = '/tmp/mut%s_%s' % (tag, pid)
    subprocess.run(['git', '-C', '/repo', 'worktree', 'add', '--detach', wt, 'HEAD'], capture_output=True)
    avoid = [m['change'] for k, m in SEEDS.items() if m['property'] == pid and 'origin' not in m]
    files = ', '.join(p['anchors']['files'])
    mech = '; '.join('%s (%s)' % (m['name'], m['where']) for m in p['anchors']['mechanism'])
    t = '''You are working ONLY inside the git worktree %(wt)s (a checkout of the C++17 project "wencry": a CLI file encryptor with hand-written AES-128 in five modes, SHA-1/MD5/SHA-256, HMAC, base64 and a multi-threaded condition-variable buffer pipeline; sources in kernel/, valget/, main.cpp; gtest-based tests in test/). Do not read or write anything under /verif or /repo, do not use the network, never use `git stash` (use `git apply -R`).

TASK: produce ONE realistic code change (the kind of bug a developer could plausibly introduce: a refactoring slip, an off-by-one, a wrong variable or constant, a dropped or weakened check, a reordered statement, two sites that each look fine alone) that BREAKS the property below, while the project still compiles and every test in the stable list still passes. The breakage must need something specific to manifest - a particular input value, length, key, option, thread interleaving, crash point or multi-step sequence of operations - NOT something that any ordinary use exposes at once.

PROPERTY:
%(id)s: %(title)s. %(statement)s (Quantifier: %(q)s) Relevant code: %(files)s. Mechanisms: %(mech)s.

Do NOT produce any of these changes (they have been done already); choose a different code site or a different kind of slip:
%(avoid)s
%(general)s

DELIVERABLES, in %(wt)s/_mut/ :
  patch.diff   - `git diff` of your source change against HEAD (only files under kernel/, valget/ or main.cpp; do not touch test/ and leave every `WENCRY_VERIF...` preprocessor hook exactly as it is)
  demo.sh      - a shell script (usage: `sh _mut/demo.sh`; it must locate the worktree root as the parent of its own directory and build what it needs itself, e.g. by compiling _mut/demo.cpp together with the needed source files directly with g++, or by building the Wencry binary with cmake into <root>/_build_demo) that FAILS (exit 1, prints FAIL) with your change and PASSES (exit 0) without it. If the failure is schedule-dependent you may inject delays in the DEMO (not in the patch) or loop many times; compiling the sources with -DWENCRY_VERIF_BUF_SZ=<n> (blocks per chunk, default 2^20) or -DWENCRY_VERIF_HBUF_SZ=<n> (64-byte units per hash-buffer refill, default 2^19) shrinks the buffers and is allowed in the demo.
  NOTES.md     - what the change breaks, what it needs in order to manifest, the exact commands you ran and what they printed (with and without the patch).

HOW TO BUILD AND TEST (~1 min):  cmake -G Ninja -S %(wt)s -B %(wt)s/_build -DCMAKE_BUILD_TYPE=RelWithDebInfo >/dev/null && cmake --build %(wt)s/_build >/dev/null && ctest --test-dir %(wt)s/_build -j4 --timeout 300
Stable tests that must still pass WITH your change: TestCBC, TestCFB, TestCTR, TestECB, TestOFB, Testaes, Testbase64, Testsha256, Testspeed, Testutest (others such as Testsha1, Testsmall, Testsmode, Testshash, Testbig are flaky/failing already and do not count; if a stable one fails once under parallel ctest, re-run it serially before concluding).
Library usage hint for demos: see test/testutil.cpp and kernel/cry.h (class runcrypt: execute_encrypt(fsize, seed), execute_decrypt(fsize), execute_verify(fsize); Settings(ctype, htype, no_echo)); you can compile the needed kernel .cpp files directly into the demo with g++ -std=c++17 -I for kernel, kernel/hash, kernel/multi_aes, kernel/multi_aes/aes, -lpthread.

Be quick: you have about 20 minutes. Verify everything yourself (build, stable tests pass with the patch, demo fails with the patch and passes without it). When done, remove %(wt)s/_build and any demo build directory, leave the worktree WITH the patch applied, and reply in at most 6 lines: the files changed, one sentence on the bug, one on what it needs to manifest, and whether all verification steps succeeded.
''' % dict(wt=wt, id=pid, title=p['title'], statement=p['statement'], q=p['quantifier']['text'], files=files, mech=mech,
           avoid='\n'.join('  - ' + a for a in avoid) or '  (none)', general=GENERAL)
    open(wt + '/_TASK.md', 'w').write(t)
    print(pid, len(t))
