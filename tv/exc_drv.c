#include "ir2c_rt.h"
#include <stdio.h>
#include <stdlib.h>
#include <errno.h>
#include <string.h>
u32 vf_t1(u8*), vf_t2(u8*), vf_t3(u8*), vf_t4(u8*, u8*), vf_t5(u8*, u8*), vf_t7(u32), vf_t8(u8*);
u64 X_strtol(u8 *s, u8 *end, u32 base) { return (u64)strtol((char*)s, (char**)end, (int)base); }
u8 *X___errno_location(void) { return (u8*)&errno; }
u8 *X_G__ZTIi;
int main(void) {
  const char *ins[] = {"12", "abc", "99999999999", "12x", "-7", ""};
  for (int i = 0; i < 6; i++) {
    int c = 0;
    u8 *s = (u8*)ins[i];
    printf("%s:", ins[i]);
    ir2c_exc = 0; { int r = (int)vf_t1(s); int e = ir2c_exc != 0; printf(" t1=%d/%d", e ? 0 : r, e); }
    ir2c_exc = 0; { int r = (int)vf_t2(s); int e = ir2c_exc != 0; printf(" t2=%d/%d", e ? 0 : r, e); }
    ir2c_exc = 0; { int r = (int)vf_t3(s); int e = ir2c_exc != 0; printf(" t3=%d/%d", e ? 0 : r, e); }
    ir2c_exc = 0; { int r = (int)vf_t4(s, (u8*)&c); int e = ir2c_exc != 0; printf(" t4=%d/%d c=%d", e ? 0 : r, e, c); }
    ir2c_exc = 0; c = 0; { int r = (int)vf_t5(s, (u8*)&c); int e = ir2c_exc != 0; printf(" t5=%d/%d c=%d", e ? 0 : r, e, c); }
    ir2c_exc = 0; { int r = (int)vf_t8(s); int e = ir2c_exc != 0; printf(" t8=%d/%d", e ? 0 : r, e); }
    printf("\n");
  }
  for (int x = 0; x < 3; x++) { ir2c_exc = 0; { int r = (int)vf_t7(x); int e = ir2c_exc != 0; printf("t7(%d)=%d/%d\n", x, e ? 0 : r, e); } }
  return 0;
}
u64 X_strlen(u8 *s) { return strlen((char*)s); }
