/* translation validation for the hash unit: generated C vs g++ build of the real sources, bit for bit */
#include "ir2c_rt.h"
#include "env_file.h"
#include <stdio.h>
#include <stdlib.h>
u8 *vf_hash_new(u8); u8 *c_vf_hash_new(u8);
void vf_hash_string(u8 *, u8 *, u32, u8 *); void c_vf_hash_string(u8 *, u8 *, u32, u8 *);
void vf_hash_file(u8 *, u8 *, u8 *); void c_vf_hash_file(u8 *, u8 *, u8 *);
u8 *vf_fb64_new(FILE *, u8 *); u8 *c_vf_fb64_new(u8 *, u8 *);
void wencry_verif_round(int a, unsigned r, unsigned *s) {}
void X_wencry_verif_round(u32 a, u32 r, u8 *s) {}
u32 vf_stub_read(u8 *b) { return 0; }
u32 X_vf_stub_read(u8 *b) { return 0; }
void c_global_ctors(void);
static u32 rng = 4242 + TV_SEED;
static u32 rnd(void) { rng = rng * 1664525u + 1013904223u; return rng >> 8; }
int main(void)
{
  u32 n = 0;
  c_global_ctors();
  /* repository test inputs (test/testsha1.cpp, testmd5.cpp, testsha256.cpp, testhmac.cpp) + random lengths incl. 55/56/63/64 residues */
  const char *vec[] = {"abcd", "", "abc", "The quick brown fox jumps over the lazy dog", "aaaaaaaaaaaaaaaaaaaaaaaaaaaaaaaaaaaaaaaaaaaaaaaaaaaaaaaaaaaaaaaaaaaaaaa"};
  for (u32 k = 0; k < TV_RANDOM / 4 + 5; k++) {
    static u8 msg[700];
    u32 len;
    if (k < 5) { len = strlen(vec[k]); memcpy(msg, vec[k], len); }
    else { len = rnd() % 600; for (u32 i = 0; i < len; i++) msg[i] = rnd(); }
    for (u8 alg = 0; alg < 3; alg++) {
      u8 o1[32] = {0}, o2[32] = {0};
      u8 *h1 = vf_hash_new(alg), *h2 = c_vf_hash_new(alg);
      vf_hash_string(h1, msg, len, o1); c_vf_hash_string(h2, msg, len, o2);
      if (memcmp(o1, o2, 32)) { printf("TV-MISMATCH string alg %u len %u\n", alg, len); return 1; }
      /* file path, with and without prefix block */
      for (int pre = 0; pre < 2; pre++) {
        FILE *rf = tmpfile(); fwrite(msg, 1, len, rf); rewind(rf);
        u8 *mf = envf_open_in(msg, len);
        u8 pb[64]; for (int i = 0; i < 64; i++) pb[i] = rnd();
        u8 *b1 = vf_fb64_new(rf, pre ? pb : 0), *b2 = c_vf_fb64_new(mf, pre ? pb : 0);
        memset(o1, 0, 32); memset(o2, 0, 32);
        vf_hash_file(h1, b1, o1); c_vf_hash_file(h2, b2, o2);
        fclose(rf);
        if (memcmp(o1, o2, 32)) { printf("TV-MISMATCH file alg %u len %u pre %d\n", alg, len, pre); return 1; }
        free(b1);
      }
      n++;
    }
  }
  printf("TV-OK %u\n", n);
  return 0;
}
