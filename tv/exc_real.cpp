#include <cstdio>
#include <exception>
extern "C" { int vf_t1(const char*); int vf_t2(const char*); int vf_t3(const char*); int vf_t4(const char*, int*); int vf_t5(const char*, int*); int vf_t7(int); int vf_t8(const char*); }
template<class F> static void run(const char *n, F f) { int r = 0, e = 0; try { r = f(); } catch (...) { e = 1; r = 0; } printf(" %s=%d/%d", n, e ? 0 : r, e); }
int main() {
  const char *ins[] = {"12", "abc", "99999999999", "12x", "-7", ""};
  for (int i = 0; i < 6; i++) {
    int c = 0; const char *s = ins[i];
    printf("%s:", s);
    run("t1", [&]{ return vf_t1(s); }); run("t2", [&]{ return vf_t2(s); }); run("t3", [&]{ return vf_t3(s); });
    run("t4", [&]{ return vf_t4(s, &c); }); printf(" c=%d", c); c = 0;
    run("t5", [&]{ return vf_t5(s, &c); }); printf(" c=%d", c);
    run("t8", [&]{ return vf_t8(s); });
    printf("\n");
  }
  for (int x = 0; x < 3; x++) { int r = 0, e = 0; try { r = vf_t7(x); } catch (...) { e = 1; } printf("t7(%d)=%d/%d\n", x, r, e); }
}
