/* translation validation: generated C (c_ prefix) vs g++ build of the real functions, bit for bit */
#include "ir2c_rt.h"
#include <stdio.h>
#include <stdlib.h>
int vf_b64_encode(u8 *in, u32 len, u8 *out); int c_vf_b64_encode(u8 *in, u32 len, u8 *out);
int vf_b64_decode(u8 *in, u32 len, u8 *out); int c_vf_b64_decode(u8 *in, u32 len, u8 *out);
int vf_b64_valid(u8 *in, u32 len); int c_vf_b64_valid(u8 *in, u32 len);
void c_global_ctors(void);
static u32 rng = 12345 + TV_SEED;
static u32 rnd(void) { rng = rng * 1664525u + 1013904223u; return rng >> 8; }
int main(void)
{
  c_global_ctors();
  u32 n = 0;
  const char *vec[] = {"", "f", "fo", "foo", "foob", "fooba", "foobar", "Hello World", "aGVsbG8gd29ybGQ=", "QUJDREVGR0hJSktMTU5PUA=="};
  for (u32 k = 0; k < TV_RANDOM + 10; k++) {
    u8 in[64], o1[128], o2[128], d1[128], d2[128];
    u32 len;
    if (k < 10) { len = strlen(vec[k]); memcpy(in, vec[k], len); }
    else { len = rnd() % 49; for (u32 i = 0; i < len; i++) in[i] = rnd(); }
    memset(o1, 0xAA, sizeof o1); memset(o2, 0xAA, sizeof o2);
    int r1 = vf_b64_encode(in, len, o1), r2 = c_vf_b64_encode(in, len, o2);
    if (r1 != r2 || memcmp(o1, o2, sizeof o1)) { printf("TV-MISMATCH encode %u\n", k); return 1; }
    u32 el = strlen((char *)o1);
    memset(d1, 0x55, sizeof d1); memset(d2, 0x55, sizeof d2);
    r1 = vf_b64_decode(o1, el, d1); r2 = c_vf_b64_decode(o2, el, d2);
    if (r1 != r2 || memcmp(d1, d2, sizeof d1)) { printf("TV-MISMATCH decode %u\n", k); return 1; }
    /* validator on random printable text and on mutated encodings */
    u8 t[40]; u32 tl = 20 + rnd() % 9;
    for (u32 i = 0; i < tl; i++) { u32 x = rnd() % 70; t[i] = x < 64 ? "ABCDEFGHIJKLMNOPQRSTUVWXYZabcdefghijklmnopqrstuvwxyz0123456789+/"[x] : x < 68 ? '=' : (u8)(rnd() | 1); }
    t[tl] = 0;
    if (vf_b64_valid(t, tl) != c_vf_b64_valid(t, tl)) { printf("TV-MISMATCH valid %u\n", k); return 1; }
    if (vf_b64_valid(o1, el) != c_vf_b64_valid(o2, el)) { printf("TV-MISMATCH valid2 %u\n", k); return 1; }
    n++;
  }
  printf("TV-OK %u\n", n);
  return 0;
}
