/* translation validation for the AES unit: generated C vs g++ build, bit for bit (repository test vectors + random) */
#include "ir2c_rt.h"
#include <stdio.h>
#include <stdlib.h>
void vf_aes_enc_block(u8 *, u8 *); void c_vf_aes_enc_block(u8 *, u8 *);
void vf_aes_dec_block(u8 *, u8 *); void c_vf_aes_dec_block(u8 *, u8 *);
void vf_key_expand(u8 *, u8 *); void c_vf_key_expand(u8 *, u8 *);
u8 *vf_mode_new(u8 *, u8 *, u32, u8); u8 *c_vf_mode_new(u8 *, u8 *, u32, u8);
void vf_mode_run(u8 *, u8 *); void c_vf_mode_run(u8 *, u8 *);
void vf_mode_getiv(u8 *, u8 *); void c_vf_mode_getiv(u8 *, u8 *);
static u32 rng = 777 + TV_SEED;
static u32 rnd(void) { rng = rng * 1664525u + 1013904223u; return rng >> 8; }
int main(void)
{
  u32 n = 0;
  for (u32 k = 0; k < TV_RANDOM + 2; k++) {
    u8 key[16] __attribute__((aligned(8))), b1[16] __attribute__((aligned(8))), b2[16] __attribute__((aligned(8))), rk1[176], rk2[176];
    if (k == 0) { memcpy(key, "abcdefghijklmnop", 16); memcpy(b1, "abcdefghijklmnop", 16); }          /* test/testaes.cpp vector */
    else if (k == 1) { for (int i = 0; i < 16; i++) { key[i] = i; b1[i] = 0x11 * i; } }                       /* FIPS-197 C.1 */
    else for (int i = 0; i < 16; i++) { key[i] = rnd(); b1[i] = rnd(); }
    memcpy(b2, b1, 16);
    vf_aes_enc_block(key, b1); c_vf_aes_enc_block(key, b2);
    if (memcmp(b1, b2, 16)) { printf("TV-MISMATCH enc %u\n", k); return 1; }
    vf_aes_dec_block(key, b1); c_vf_aes_dec_block(key, b2);
    if (memcmp(b1, b2, 16)) { printf("TV-MISMATCH dec %u\n", k); return 1; }
    vf_key_expand(key, rk1); c_vf_key_expand(key, rk2);
    if (memcmp(rk1, rk2, 176)) { printf("TV-MISMATCH keyexp %u\n", k); return 1; }
    /* modes: 5 types x 2 directions, 3 blocks each, IV with random 0xFF suffix */
    u8 iv[20]; for (int i = 0; i < 20; i++) iv[i] = rnd(); u32 ff = rnd() % 17; for (u32 i = 16 - ff; i < 16; i++) iv[i] = 0xff;
    for (u32 ty = 0; ty < 5; ty++) for (u32 dir = 0; dir < 2; dir++) {
      u8 *m1 = vf_mode_new(key, iv, dir, ty), *m2 = c_vf_mode_new(key, iv, dir, ty);
      for (int j = 0; j < 3; j++) {
        for (int i = 0; i < 16; i++) b1[i] = b2[i] = rnd();
        vf_mode_run(m1, b1); c_vf_mode_run(m2, b2);
        u8 i1[16], i2[16]; vf_mode_getiv(m1, i1); c_vf_mode_getiv(m2, i2);
        if (memcmp(b1, b2, 16) || memcmp(i1, i2, 16)) { printf("TV-MISMATCH mode %u/%u at %u\n", ty, dir, k); return 1; }
      }
    }
    n++;
  }
  printf("TV-OK %u\n", n);
  return 0;
}
