#include <string>
#include <stdexcept>
extern "C" __attribute__((noinline)) int vf_t1(const char *s) { try { size_t pos; int v = std::stoi(s, &pos); return s[pos]==0 ? v : -1000; } catch (const std::invalid_argument&) { return -2000; } }
extern "C" __attribute__((noinline)) int vf_t2(const char *s) { try { return vf_t1(s); } catch (const std::logic_error &) { return -3000; } }
extern "C" __attribute__((noinline)) int vf_t3(const char*s) { try { return vf_t1(s);} catch (...) { return -4000; } }
struct G { int *p; G(int*q):p(q){} ~G(){ (*p)++; } };
extern "C" __attribute__((noinline)) int vf_t4(const char *s, int *cnt) { G g(cnt); return vf_t1(s); }
extern "C" __attribute__((noinline)) int vf_t5(const char *s, int *cnt) { try { return vf_t4(s,cnt);} catch (const std::out_of_range&) { return -5000; } }
extern "C" __attribute__((noinline)) int vf_t7(int x) { try { try { if (x) throw 5; return 1; } catch (int v) { if (x > 1) throw; return v; } } catch (...) { return 9; } }
extern "C" __attribute__((noinline)) int vf_t8(const char *s) { try { return vf_t1(s); } catch (const std::runtime_error &) { return -8000; } }
