// Shim for the base64 unit
#include "base64.cpp"
#define VF extern "C" __attribute__((noinline, used))
VF int vf_b64_encode(const u8_t *in, int len, u8_t *out) { return hex_to_base64(in, len, out); }
VF int vf_b64_decode(const u8_t *in, int len, u8_t *out) { return base64_to_hex(in, len, out); }
VF int vf_b64_valid(const u8_t *in, int len) { return is_valid_b64(in, len); }
VF int vf_is_b64(u8_t c) { return is_base64(c); }
VF u8_t vf_b64_tab(u32_t i) { return b64_tab[i]; }
VF u8_t vf_hex_tab(u32_t i) { return hex_tab[i]; }
