// Shim for the hash unit: real sources + C entry points (compiled with -fno-access-control)
#include "hashmaster.cpp"
#include "hashbuffer.cpp"
#include "sha1.cpp"
#include "sha256.cpp"
#include "md5.cpp"
#include <new>
#define VF extern "C" __attribute__((noinline, used))

VF Hashmaster *vf_hash_new(u8_t type) { HashFactory hf; return hf.getHasher(hf.getType(type)); }
VF int vf_hash_gettype(u8_t type) { return (int)HashFactory::getType(type); }
VF u32_t vf_hash_hlen(Hashmaster *h) { return h->gethlen(); }
VF u32_t vf_hash_blen(Hashmaster *h) { return h->getblen(); }
VF void vf_hash_reset(Hashmaster *h) { h->reset(); }
VF void vf_hash_compress(Hashmaster *h, const u8_t *block) { h->getHash(block); }
VF void vf_hash_final(Hashmaster *h, const u8_t *tail, u32_t n) { h->getHash(tail, n); }
VF void vf_hash_getres(Hashmaster *h, u8_t *out) { h->getres(out); }
VF void vf_hash_string(Hashmaster *h, const u8_t *s, u32_t len, u8_t *out) { h->getStringHash(s, len, out); }
VF void vf_hash_file(Hashmaster *h, buffer64 *b, u8_t *out) { h->getFileHash(b, out); }
VF u64_t vf_hash_get_total(Hashmaster *h) { return (u64_t)h->totalsize; }
VF void vf_hash_set_total(Hashmaster *h, u64_t v) { h->totalsize = v; }
VF u32_t vf_hash_total_bits(void) { return 8 * sizeof(((Hashmaster *)0)->totalsize); }
static u32_t *hwords(Hashmaster *h, u8_t type, u32_t *n)
{
  switch (type) {
  case 0: *n = 5; return static_cast<sha1hash *>(h)->h;
  case 1: *n = 4; return static_cast<md5hash *>(h)->h;
  default: *n = 8; return static_cast<sha256hash *>(h)->h;
  }
}
VF void vf_hash_get_h(Hashmaster *h, u8_t type, u32_t *out) { u32_t n; u32_t *p = hwords(h, type, &n); for (u32_t i = 0; i < n; i++) out[i] = p[i]; }
VF void vf_hash_set_h(Hashmaster *h, u8_t type, const u32_t *in) { u32_t n; u32_t *p = hwords(h, type, &n); for (u32_t i = 0; i < n; i++) p[i] = in[i]; }
// message schedules
VF void vf_sha1_sched(Hashmaster *h, const u8_t *block, u32_t *w80) { sha1hash *s = static_cast<sha1hash *>(h); memcpy(s->s, block, 64); s->getwdata(); memcpy(w80, s->w, 320); }
VF void vf_sha256_sched(Hashmaster *h, const u8_t *block, u32_t *w64) { sha256hash *s = static_cast<sha256hash *>(h); memcpy(s->s, block, 64); s->getwdata(); memcpy(w64, s->w, 256); }
VF void vf_hash_set_w(Hashmaster *h, u8_t type, u32_t idx, u32_t val)
{
  if (type == 0) static_cast<sha1hash *>(h)->w[idx] = val;
  else if (type == 2) static_cast<sha256hash *>(h)->w[idx] = val;
}
VF u32_t vf_sha256_k(u32_t i) { return sha256hash::k[i]; }
// a buffer64 whose reads are served by the harness (getFileHash loop obligation)
extern "C" u32_t vf_stub_read(u8_t *block);
struct vf_stubbuf : buffer64 { u32_t read_buffer64(u8_t *block, const std::function<void(std::string, size_t)> &) override { return vf_stub_read(block); } };
VF buffer64 *vf_stubbuf_new(void) { return new vf_stubbuf; }
// file buffer
VF buffer64 *vf_fb64_new(FILE *fp, u8_t *block) { return new filebuffer64(fp, [](std::string, size_t) -> void {}, block); }
VF u32_t vf_fb64_read(buffer64 *b, u8_t *block) { return b->read_buffer64(block, [](std::string, size_t) -> void {}); }
VF u32_t vf_fb64_unit_count(void) { return sizeof(((filebuffer64 *)0)->b) / 64; }
