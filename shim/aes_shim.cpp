// Shim for the AES unit: includes the real sources and exposes C entry points.
#include "aes.cpp"
#include "aesmode.cpp"
#include <new>
#include <cstddef>
#define VF extern "C" __attribute__((noinline, used))

// --- C09: single block
VF void vf_aes_enc_block(const u8_t *key, u8_t *block) { encryaes e(key); e.runaes_128bit(block); }
VF void vf_aes_dec_block(const u8_t *key, u8_t *block) { decryaes d(key); d.runaes_128bit(block); }
// round functions on the real transposed state
VF void vf_enc_commonround(state_t *w, const state_t *k) { encryaes_commonround(*w, *k); }
VF void vf_enc_specround(state_t *w, const state_t *k1, const state_t *k2) { encryaes_specround(*w, *k1, *k2); }
VF void vf_dec_commonround(state_t *w, const state_t *k) { decryaes_commonround(*w, *k); }
VF void vf_dec_specround(state_t *w, const state_t *k1, const state_t *k2) { decryaes_specround(*w, *k1, *k2); }
VF void vf_enc_subbytes(state_t *w) { encryaes_subbytes(*w); }
VF void vf_enc_rowshift(state_t *w) { encryaes_rowshift(*w); }
VF void vf_enc_columnmix(state_t *w) { encryaes_columnmix(*w); }
VF void vf_dec_subbytes(state_t *w) { decryaes_subbytes(*w); }
VF void vf_dec_rowshift(state_t *w) { decryaes_rowshift(*w); }
VF void vf_dec_columnmix(state_t *w) { decryaes_columnmix(*w); }
VF u8_t vf_sbox(u8_t x) { return s_box[x]; }
VF u8_t vf_rsbox(u8_t x) { return rs_box[x]; }
VF u8_t vf_log(u8_t x) { return Logtable[x]; }
VF u8_t vf_alog(u32_t x) { return Alogtable[x]; }
VF u32_t vf_alog_size() { return sizeof(Alogtable); }
VF u8_t vf_rc(u32_t x) { return RC[x]; }
VF u8_t vf_gmul(u8_t u, u8_t v) { return Gmul(u, v); }
// key schedule: object access helpers (friend-free: -fno-access-control)
struct vf_keyview : aeshandle { using aeshandle::key; };
VF void vf_key_expand(const u8_t *key, u8_t *out176)
{
  encryaes e(key);
  aeshandle *h = &e;
  for (int r = 0; r < 11; ++r)
    memcpy(out176 + 16 * r, &h->key.get_key(r), 16);
}
VF void vf_genkey_step(u8_t *rk_prev16, int round, u8_t *rk_out16)
{
  // run the real genkey(round) on a keyhandle whose key[round-1] is arbitrary
  u8_t zero[16] = {0};
  encryaes e(zero);
  aeshandle *h = &e;
  memcpy(&h->key.key[round - 1], rk_prev16, 16);
  h->key.genkey(round);
  memcpy(rk_out16, &h->key.key[round], 16);
}
// block functions on an object whose 11 round keys are given directly (composition obligation T4)
VF void vf_aes_rk_enc(const u8_t *rk176, u8_t *block)
{
  u8_t zero[16] = {0};
  encryaes e(zero);
  aeshandle *h = &e;
  memcpy(&h->key.key[0], rk176, 176);
  e.runaes_128bit(block);
}
VF void vf_aes_rk_dec(const u8_t *rk176, u8_t *block)
{
  u8_t zero[16] = {0};
  decryaes d(zero);
  aeshandle *h = &d;
  memcpy(&h->key.key[0], rk176, 176);
  d.runaes_128bit(block);
}
// --- C10: modes
VF Aesmode *vf_mode_new(u8_t *key, const u8_t *iv, int isenc, u8_t type)
{
  AesFactory f(key);
  f.loadiv(iv);
  return f.createCryMaster(isenc != 0, type);
}
VF void vf_mode_run(Aesmode *m, u8_t *block) { m->runcry(block); }
VF void vf_mode_getiv(Aesmode *m, u8_t *out16) { memcpy(out16, m->iv, 16); }
VF void vf_mode_setiv(Aesmode *m, const u8_t *in16) { memcpy(m->iv, in16, 16); }
// layout facts for the frame condition (which object bytes a step may change): register and AES scratch state
struct vf_probe : AesEncrypt { vf_probe(u8_t *k, const u8_t *iv) : AesEncrypt(k, iv) {} void runcry(u8_t *) override {} };
VF void vf_mode_layout(u32_t *iv_off, u32_t *w_off, u32_t *size)
{
  *iv_off = (u32_t)offsetof(vf_probe, iv);
  *w_off = (u32_t)((size_t)offsetof(vf_probe, crypt) + offsetof(encryaes, w));
  *size = (u32_t)sizeof(vf_probe);
}
