/* stand-in for the CMake-generated config.h (version strings only) */
#define PROJECT_VERSION "verif"
#define V_BUILD_TIME "verif"
