// Shim for the PROTOCOL unit: multi_buffergroup.cpp + multicry.cpp compiled -fno-inline, so that data movement (load/export),
// the progress callback and string building are separate functions that ir2c can redirect to stubs. What remains is exactly the
// synchronisation protocol of the real code.
#include "multicry.h"
#include <new>
#include <cstddef>
#define VF extern "C" __attribute__((noinline, used))
void multiruncrypt_file(u8_t id, Aesmode &mode);   // defined in multicry.cpp (no header declaration)
extern "C" void vf_mark(Aesmode *m, u8_t *block);
struct vf_markmode : Aesmode
{
  vf_markmode(const u8_t *iv) : Aesmode(iv) {}
  void runcry(u8_t *block) override { vf_mark(this, block); }
};
VF Aesmode *vf_markmode_new(void) { static const u8_t z[16] = {0}; return new vf_markmode(z); }
// the I/O side exactly as prepare_AES + run_multicry drive it, minus thread creation (the harness starts the workers itself)
VF void vf_proto_setup(u8_t threads, int ispadding) { buffergroup::get_instance()->set_buffergroup(threads, NULL, NULL, ispadding != 0); }
VF void vf_proto_io(void) { buffergroup::get_instance()->run_buffer([](std::string, size_t) -> void {}); }
VF void vf_proto_worker(u8_t id, Aesmode *m) { multiruncrypt_file(id, *m); }
VF void vf_proto_teardown(void) { buffergroup::del_instance(); }
// accessors for stubs / monitor (not instrumented)
VF u8_t *vf_bg_buflst(void) { buffergroup *g = buffergroup::instance; return g ? (u8_t *)g->buflst : 0; }
VF u32_t vf_bg_state(u32_t i) { buffergroup *g = buffergroup::instance; return (u32_t)g->ctrl[i].state; }
VF u32_t vf_bg_nbuf(void) { buffergroup *g = buffergroup::instance; return g ? g->size : 0; }
VF u32_t vf_bg_turn(void) { return buffergroup::instance->turn; }
VF u32_t vf_iobuffer_size(void) { return sizeof(iobuffer); }
VF u32_t vf_buf_sz(void) { return iobuffer::BUF_SZ; }
VF int vf_bg_instance_null(void) { return buffergroup::instance == NULL; }
VF u32_t vf_bg_live(void) { return bufferctrl::live_num; }
VF void vf_iob_set(iobuffer *b, u32_t total, u32_t now, u32_t tail, int isfinal) { b->total = total; b->now = now; b->tail = tail; b->isfinal = isfinal != 0; }
VF u32_t vf_iob_total(iobuffer *b) { return b->total; }
VF u32_t vf_iob_now(iobuffer *b) { return b->now; }
VF u32_t vf_iob_isfinal(iobuffer *b) { return b->isfinal; }
VF u32_t vf_iob_block_off(void) { return (u32_t)offsetof(iobuffer, b); }
// ---- leaves, for the refinement obligations (L1)
VF bufferctrl *vf_ctrl_new(void) { return new bufferctrl; }
VF void vf_ctrl_set_update(bufferctrl *c) { c->set_update(); }
VF void vf_ctrl_set_ready(bufferctrl *c, int load) { c->set_ready(load != 0); }
VF void vf_ctrl_wait_ready(bufferctrl *c) { c->wait_ready(); }
VF void vf_ctrl_wait_update(bufferctrl *c) { c->wait_update(); }
VF int vf_ctrl_cmpstate(bufferctrl *c, u32_t s) { return c->cmpstate((bufstate_t)s); }
VF int vf_haslive(void) { return bufferctrl::haslive(); }
VF u32_t vf_ctrl_state(bufferctrl *c) { return (u32_t)c->state; }
VF void vf_ctrl_set_state(bufferctrl *c, u32_t s) { c->state = (bufstate_t)s; }
VF u8_t *vf_ctrl_state_addr(bufferctrl *c) { return (u8_t *)&c->state; }
VF u8_t *vf_ctrl_mutex(bufferctrl *c) { return (u8_t *)c->lock.native_handle(); }
VF u8_t *vf_ctrl_cv_ready(bufferctrl *c) { return (u8_t *)&c->cv_ready; }
VF u8_t *vf_ctrl_cv_update(bufferctrl *c) { return (u8_t *)&c->cv_update; }
VF u8_t vf_live_get(void) { return bufferctrl::live_num; }
VF void vf_live_set(u8_t v) { bufferctrl::live_num = v; }
VF u8_t *vf_live_addr(void) { return &bufferctrl::live_num; }
VF iobuffer *vf_iob_new(void) { return new iobuffer; }
VF u8_t *vf_iob_get_entry(iobuffer *b) { return b->get_entry(); }
VF u8_t *vf_iob_block(iobuffer *b, u32_t i) { return b->b[i]; }
// ---- skeletons, for the refinement obligations (L2)
VF u8_t *vf_req(u8_t id) { return buffergroup::get_instance()->require_buffer_entry(id); }
VF void vf_bg_buffer_update(void) { buffergroup::get_instance()->buffer_update([](std::string, size_t) -> void {}); }
VF int vf_bg_turn_iter(void) { return buffergroup::get_instance()->turn_iter(); }
VF void vf_bg_set_turn(u32_t t) { buffergroup::get_instance()->turn = t; }
VF void vf_bg_set_over(int o) { buffergroup::get_instance()->over = o != 0; }
VF int vf_bg_over(void) { return buffergroup::get_instance()->over; }
VF u8_t *vf_bg_ctrl(void) { return (u8_t *)buffergroup::get_instance()->ctrl; }
VF u32_t vf_ctrl_size(void) { return sizeof(bufferctrl); }
// run_multicry itself: thread creation / join order is decided by a sequential obligation with recording stubs
VF void vf_run_multicry(u8_t threads, Aesmode **modes) { multicry_master m(threads); m.run_multicry(modes, [](std::string, size_t) -> void {}); }
