// Shim for the command-line unit: main.cpp (main renamed), getopts.cpp, information.cpp, getval1.cpp, base64.cpp, Settings from cry.cpp
#include "getval.h"
#include "base64.h"
#include "cry.h"
#include <cstddef>
#define VF extern "C" __attribute__((noinline, used))
int wencry_main(int argc, char *argv[]);
extern char fout[128];
VF int vf_main(int argc, char **argv) { return wencry_main(argc, argv); }
VF u8_t *vf_get_v_opt(int argc, char **argv) { return get_v_opt(argc, argv); }
VF char *vf_fout(void) { return fout; }
VF u32_t vf_fout_size(void) { return sizeof(fout); }
VF FILE *vf_pak_fp(u8_t *v) { return ((vpak_t *)v)->fp; }
VF FILE *vf_pak_out(u8_t *v) { return ((vpak_t *)v)->out; }
VF u8_t *vf_pak_key(u8_t *v) { return ((vpak_t *)v)->key; }
VF int vf_pak_mode(u8_t *v) { return ((vpak_t *)v)->mode; }
VF int vf_pak_ctype(u8_t *v) { return ((vpak_t *)v)->ctype; }
VF int vf_pak_htype(u8_t *v) { return ((vpak_t *)v)->htype; }
VF u32_t vf_rc_resultprint_off(void) { return (u32_t)offsetof(runcrypt, resultprint); }
VF u8_t *vf_pak_rbuf(u8_t *v) { return ((vpak_t *)v)->r_buf; }
