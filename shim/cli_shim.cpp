// Shim for the command-line unit: main.cpp (main renamed), getopts.cpp, information.cpp, getval1.cpp, base64.cpp, Settings from cry.cpp
#include "getval.h"
#include "base64.h"
#include "cry.h"
#include <cstddef>
#include <cstring>
#include <string>
#define VF extern "C" __attribute__((noinline, used))
int wencry_main(int argc, char *argv[]);
bool parseOpts(char c, vpak_t *res);
VF int vf_main(int argc, char **argv) { return wencry_main(argc, argv); }
VF u8_t *vf_get_v_opt(int argc, char **argv) { return get_v_opt(argc, argv); }
VF u32_t vf_parseopts(int c, u8_t *res) { return parseOpts((char)c, (vpak_t *)res) ? 1u : 0u; }
VF u8_t *vf_pak_new(void)
{
  vpak_t *p = new vpak_t;
  memset(p->buf, 0, sizeof p->buf);
  return p->buf;
}
VF void vf_pak_set(u8_t *v, FILE *fp, FILE *out, u8_t *key, u64_t size, int mode, int ctype, int htype, int no_echo)
{
  vpak_t *p = (vpak_t *)v;
  p->fp = fp; p->out = out; p->key = key; p->size = size; p->mode = (char)mode; p->ctype = (char)ctype; p->htype = (char)htype; p->no_echo = no_echo != 0;
}
VF FILE *vf_pak_fp(u8_t *v) { return ((vpak_t *)v)->fp; }
VF FILE *vf_pak_out(u8_t *v) { return ((vpak_t *)v)->out; }
VF u8_t *vf_pak_key(u8_t *v) { return ((vpak_t *)v)->key; }
VF u64_t vf_pak_size(u8_t *v) { return ((vpak_t *)v)->size; }
VF int vf_pak_mode(u8_t *v) { return ((vpak_t *)v)->mode; }
VF int vf_pak_ctype(u8_t *v) { return ((vpak_t *)v)->ctype; }
VF int vf_pak_htype(u8_t *v) { return ((vpak_t *)v)->htype; }
VF int vf_pak_noecho(u8_t *v) { return ((vpak_t *)v)->no_echo ? 1 : 0; }
VF u8_t *vf_pak_rbuf(u8_t *v) { return ((vpak_t *)v)->r_buf; }
VF u32_t vf_rc_resultprint_off(void) { return (u32_t)offsetof(runcrypt, resultprint); }
VF u32_t vf_rc_sizeof(void) { return (u32_t)sizeof(runcrypt); }
