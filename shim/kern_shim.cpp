// Shim for the kernel unit (linked at IR level with the real kernel .cpp files): C entry points only.
#include "cry.h"
#include "hashbuffer.h"
#include <new>
#include <cstddef>
#include <thread>
#include <tuple>
#include <functional>
#define VF extern "C" __attribute__((noinline, used))

// ---- runcrypt
VF runcrypt *vf_rc_new(FILE *fin, FILE *out, u8_t *key, int ctype, int htype, u8_t threads)
{
  Settings s((char)ctype, (char)htype, true);      // no_echo: NullResPrint (printing is not the subject of any property)
  return new runcrypt(fin, out, key, s, threads);
}
VF int vf_rc_encrypt(runcrypt *r, size_t fsize, u8_t *r_buf) { return r->execute_encrypt(fsize, r_buf); }
VF int vf_rc_decrypt(runcrypt *r, size_t fsize) { return r->execute_decrypt(fsize); }
VF int vf_rc_verify_op(runcrypt *r, size_t fsize) { return r->execute_verify(fsize); }
VF int vf_rc_verify(runcrypt *r, size_t fsize) { return r->verify(fsize); }
VF u8_t *vf_rc_prepare_iv_seed(runcrypt *r, const u8_t *r_buf) { return r->prepare_IV(r_buf); }
VF u8_t *vf_rc_prepare_iv_file(runcrypt *r) { return r->prepare_IV(); }
VF Aesmode **vf_rc_prepare_aes(runcrypt *r, u8_t ctype, u8_t *iv, int enc) { return r->prepare_AES(ctype, iv, enc != 0); }
VF u8_t vf_rc_hdr_ctype(runcrypt *r) { return r->header.getctype(); }
VF u8_t vf_rc_hdr_htype(runcrypt *r) { return r->header.gethtype(); }
VF void vf_rc_delete(runcrypt *r) { delete r; }
// ---- FileHeader / hmac
VF FileHeader *vf_fh_new(FILE *fp, FILE *out, u8_t *key, u8_t ctype, u8_t htype, u8_t num) { return new FileHeader(fp, out, key, ctype, htype, num); }
VF void vf_fh_getiv_seed(FileHeader *h, const u8_t *r_buf, u8_t *iv) { h->getIV(r_buf, iv); }
VF void vf_fh_getiv_file(FileHeader *h, FILE *fp, u8_t *iv) { h->getIV(fp, iv); }
VF void vf_fh_header(FileHeader *h, u8_t *iv) { h->getFileHeader(iv); }
VF int vf_fh_checkmn(FileHeader *h) { return h->checkMn(); }
VF void vf_fh_checktype(FileHeader *h) { h->checkType(); }
VF u8_t *vf_fh_gethmac(FileHeader *h, u8_t len) { return h->getHmac(len); }
VF u8_t vf_fh_ctype(FileHeader *h) { return h->getctype(); }
VF u8_t vf_fh_htype(FileHeader *h) { return h->gethtype(); }
VF hmac *vf_hmac_new(void) { return new hmac; }
VF void vf_hmac_get(hmac *m, u8_t htype, u8_t *key, FILE *fp, u8_t *out) { m->gethmac(htype, key, fp, out, 0); }
VF int vf_hmac_cmp(hmac *m, u8_t htype, u8_t *key, FILE *fp, const u8_t *tag) { return m->cmphmac(htype, key, fp, tag, 0); }
VF void vf_hmac_write(hmac *m, u8_t htype, FILE *fp, u8_t *key, u8_t hashMark, u8_t writeMark) { m->writeFileHmac(htype, fp, key, hashMark, writeMark, 0); }
VF u8_t vf_hmac_len(hmac *m) { return m->get_length(); }
// ---- hash objects (state access for the compression stub)
VF u64_t vf_hash_get_total(Hashmaster *h) { return (u64_t)h->totalsize; }
VF void vf_hash_set_total(Hashmaster *h, u64_t v) { h->totalsize = v; }
VF u32_t *vf_hash_words(Hashmaster *h, u32_t *n)
{
  u32_t hl = h->gethlen();
  *n = hl / 4;
  if (hl == 20) return static_cast<sha1hash *>(h)->h;
  if (hl == 16) return static_cast<md5hash *>(h)->h;
  return static_cast<sha256hash *>(h)->h;
}
// ---- AES objects
VF const u8_t *vf_aes_objkey(aeshandle *a) { return a->key.init_key; }
struct vf_aesprobe : aeshandle { using aeshandle::key; };
VF u32_t vf_keyhandle_initkey_off(void) { return (u32_t)offsetof(aeshandle::keyhandle, init_key); }
VF void vf_mode_getiv(Aesmode *m, u8_t *out16) { memcpy(out16, m->iv, 16); }
VF void vf_mode_run(Aesmode *m, u8_t *block) { m->runcry(block); }
// ---- pipeline
VF buffergroup *vf_bg_get(void) { return buffergroup::get_instance(); }
VF void vf_bg_del(void) { buffergroup::del_instance(); }
VF int vf_bg_instance_null(void) { return buffergroup::instance == NULL; }
VF u32_t vf_bg_live(void) { return bufferctrl::live_num; }
VF u32_t vf_bg_size(void) { return buffergroup::get_instance()->size; }
VF FILE *vf_bg_fin(void) { return buffergroup::get_instance()->fin; }
VF FILE *vf_bg_fout(void) { return buffergroup::get_instance()->fout; }
VF int vf_bg_ispadding(void) { return buffergroup::get_instance()->ispadding; }
VF u8_t vf_mc_threads(multicry_master *m) { return m->THREADS_NUM; }
// AesEncrypt/AesDecrypt are private to aesmode.cpp: mirror of their layout (Aesmode base followed by the block-cipher object)
struct vf_modemirror : Aesmode { encryaes crypt; vf_modemirror(u8_t *k, const u8_t *iv) : Aesmode(iv), crypt(k) {} void runcry(u8_t *) override {} };
VF const u8_t *vf_mode_key(Aesmode *m) { return reinterpret_cast<vf_modemirror *>(m)->crypt.key.init_key; }
VF u8_t *vf_bg_buflst(void) { buffergroup *g = buffergroup::instance; return g ? (u8_t *)g->buflst : 0; }
VF u32_t vf_bg_state(u32_t i) { buffergroup *g = buffergroup::instance; return (u32_t)g->ctrl[i].state; }
VF u32_t vf_bg_nbuf(void) { buffergroup *g = buffergroup::instance; return g ? g->size : 0; }
VF u32_t vf_iobuffer_size(void) { return sizeof(iobuffer); }
VF u32_t vf_iobuffer_data_size(void) { return iobuffer::sum; }
// the pipeline exactly as execute_encrypt/execute_decrypt drive it (set up, run, tear down), without header/MAC
VF void vf_pipe_run(FILE *fin, FILE *fout, int ispadding, u8_t threads, Aesmode **modes)
{
  buffergroup::get_instance()->set_buffergroup(threads, fin, fout, ispadding != 0);
  multicry_master m(threads);
  m.run_multicry(modes, [](std::string, size_t) -> void {});
  buffergroup::del_instance();
}
VF Aesmode *vf_mode_make(u8_t *key, const u8_t *iv, int isenc, u8_t type) { AesFactory f(key); f.loadiv(iv); return f.createCryMaster(isenc != 0, type); }
// decode the argument pack that run_multicry hands to std::thread (used by the scheduler model of thread creation)
using vf_inv_t = std::thread::_Invoker<std::tuple<void (*)(u8_t, Aesmode &), u8_t, std::reference_wrapper<Aesmode>>>;
VF void vf_thread_decode(std::thread::_State *s, void **fn, u8_t *id, Aesmode **m)
{
  auto *p = static_cast<std::thread::_State_impl<vf_inv_t> *>(s);
  *fn = (void *)std::get<0>(p->_M_func._M_t);
  *id = std::get<1>(p->_M_func._M_t);
  *m = &std::get<2>(p->_M_func._M_t).get();
}
VF u32_t vf_buf_sz(void) { return iobuffer::BUF_SZ; }
